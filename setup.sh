#!/bin/bash
# Build the overlay venv used by every check (offline; idempotent).
set -e
cd "$(dirname "$0")"
if [ ! -x .venv/bin/python ] || ! .venv/bin/python -c "import z3" 2>/dev/null; then
  rm -rf .venv
  /venv/bin/python -m venv .venv
  echo "import site; site.addsitedir('/venv/lib/python3.12/site-packages')" > .venv/lib/python3.12/site-packages/_venv.pth
  PIP_NO_INDEX=1 .venv/bin/pip install -q --no-index --find-links /opt/veriftools/wheels z3-solver cvc5
fi
.venv/bin/python -c "import z3, numpy, h5py, cell_type_mapper; print('setup ok: z3', z3.get_version_string())"
