"""tools/prof_cases.py PROP HARNESS TIER BUDGET_S: run every case of a harness on one core and print paths / time"""
import sys, os, time, json, importlib
sys.path[0:0]=['/verif','/repo/src']
import warnings; warnings.simplefilter('ignore')
from symx import core
prop, hname, tier, budget = sys.argv[1], sys.argv[2], sys.argv[3], float(sys.argv[4])
mod=importlib.import_module(f'harness.{prop}')
h={x.name:x for x in mod.HARNESSES}[hname]
for case in h.cases_for(tier):
    pid=os.fork()
    if pid==0:
        sys.stdout=open(os.devnull,'w')
        if h.setup: h.setup(case,'sym')
        ctx=core.SymCtx(max_s=budget, query_timeout_ms=h.query_timeout_ms)
        t=time.time(); st='ok'
        try: ctx.explore(lambda c:h.fn(c,case))
        except core.Budget as b: st='BUDGET'
        except BaseException as e: st='ERR '+repr(e)[:80]
        sys.stdout=sys.__stdout__
        print(case, st, 'paths',ctx.stats.paths,'q',ctx.stats.queries,'unk',ctx.stats.unknown,'viol',ctx.stats.violated, round(time.time()-t,1),'s', flush=True)
        try:
            from harness import common; common.cleanup_sandbox()
        except BaseException: pass
        os._exit(0)
    os.waitpid(pid,0)
