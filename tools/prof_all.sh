#!/bin/bash
# profile every (property, harness) of a tier on one core each with a per-case budget
TIER=${1:-thorough}; BUD=${2:-60}
cd /verif
.venv/bin/python - <<PY > /tmp/prof_jobs.txt
import sys, importlib
sys.path[0:0]=['/verif','/repo/src']
import warnings; warnings.simplefilter('ignore')
for i in range(1,21):
    p=f"C{i:02d}"
    m=importlib.import_module(f"harness.{p}")
    for h in m.HARNESSES:
        if "$TIER" in h.tiers: print(p, h.name)
PY
cat /tmp/prof_jobs.txt | PYTHONPATH=/repo/src:/verif xargs -P 12 -L 1 sh -c '.venv/bin/python tools/prof_cases.py $0 $1 '$TIER' '$BUD' 2>&1 | sed "s/^/$0 $1: /"' 
