claim('C02',
      "Bounded symbolic model checking of the real vote-tally, vote-aggregation, winner/runner-up selection, correlation kernel and normalisation code: for every input inside the stated bounds (all vote vectors for a symbolic iteration count, all leaf->child ownership maps up to 4-5 leaves, all bootstrap subsets of <=4-5 markers with a symbolic bootstrap factor, all real matrices of <=2x3x3(4)) each obligation is discharged by z3; nothing is claimed outside the bounds.",
      "floats modelled as exact reals; numpy semantics on object arrays trusted (validated by the differential self-test on each run); rng.choice(replace=False) contract (duplicate-free sample) assumed; GPU/torch path not covered",
      "DESIGN.md §4 C02")
