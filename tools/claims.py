claim('C02',
      "Bounded symbolic model checking of the real vote-tally, vote-aggregation, winner/runner-up selection, correlation kernel and normalisation code: for every input inside the stated bounds (all vote vectors for a symbolic iteration count, all leaf->child ownership maps up to 4-5 leaves, all bootstrap subsets of <=4-5 markers with a symbolic bootstrap factor, all real matrices of <=2x3x3(4)) each obligation is discharged by z3; nothing is claimed outside the bounds.",
      "floats modelled as exact reals; numpy semantics on object arrays trusted (validated by the differential self-test on each run); rng.choice(replace=False) contract (duplicate-free sample) assumed; GPU/torch path not covered",
      "DESIGN.md §4 C02")
claim('C03',
      "Bounded symbolic model checking of the real per-level assignment loop (run_type_assignment, _run_type_assignment, choose_node, aggregate_votes) and backfill_assignments on every child->parent map of the listed tree sizes, with arbitrary vote/correlation tallies and a symbolic iteration count: every arithmetic clause of the confidence contract is a z3-discharged obligation on every path.",
      "vote tallies are arbitrary but satisfy 'one vote per iteration, correlation only with a vote, |corr|<=1 per vote' (the kernel side of this is discharged in C02); floats as exact reals; assemble_query_data replaced by a harness oracle computed from the harness's own parent map",
      "DESIGN.md §4 C03")
claim('C13',
      "Bounded symbolic model checking of the real on-disk transposition on an h5py model: every sparsity pattern of the listed shapes, symbolic stored values, every block size of the three internal loops (generalised memory-budget floor), with/without value array and every minor-axis sub-range; plus the hyperslab tiling arithmetic and CSR concatenation. Values are compared by term identity, i.e. for all values.",
      "h5py replaced by an in-memory model that enforces chunk-shape / ordered-selection / read-only preconditions (validated against real h5py by the self-test, which re-runs sampled inputs through real files); the floor max(100,.) is generalised to small block sizes so that multi-block loops are reached with <=9 stored entries",
      "DESIGN.md §4 C13")
claim('C05',
      "Bounded symbolic model checking of the real row iterators and sparse loaders on an h5py model: every sparsity pattern of the listed shapes with symbolic stored values, dense/CSR/CSC, X and a named layer, a symbolic row-chunk size, every block size of the CSC->CSR conversion, every contiguous sub-range and every duplicate-free row list; delivered values are compared with the stored ones by term identity.",
      "h5py model and a 12-line scipy.sparse.csr_matrix.toarray model stand in for the libraries (self-test re-runs sampled inputs through real h5py/scipy files); HDF5 chunk layout and dtype conversion inside libhdf5 are outside; row lists with repeats are outside (docstring says set of rows)",
      "DESIGN.md §4 C05")
claim('C10',
      "Bounded exhaustive exploration with the solver as enumerator: every child->parent map of the listed level sizes (quick: <=3 levels / 4 leaves; thorough: up to 4 levels / 6 leaves) and every single edit of it is run through the real validator and compared with an independent strict-tree predicate; on every valid tree flatten / drop-level / serialise-reread / partition / parent-child inverse / leaf-pair obligations are evaluated against an independent oracle built from the child->parent map.",
      "the taxonomy code is pure Python over concrete structures, so once the solver has fixed the structure every obligation is a concrete evaluation; node names are opaque fixed strings whose alphabetical order differs from index order",
      "DESIGN.md §4 C10")
claim('C08',
      "Bounded symbolic model checking of the real marker reconciliation chain (validate_marker_lookup -> create_marker_cache_from_specified_markers -> write_query_markers_to_h5 -> reconcile_taxonomy_and_markers / serialize_markers / assemble_query_data) against a reference model written from the statement, for every tree, marker table, query gene subset/order and min_markers inside the bounds; query/reference values are symbolic and compared by term identity (pairing by name).",
      "h5py model; inputs on which the statement allows either outcome (single-child root without usable markers, genes unknown to both files) are accepted either way and counted separately; min_markers=0 outside",
      "DESIGN.md §4 C08")
claim('C01',
      "Bounded symbolic model checking of (a) the real per-level assignment loop on every child->parent map of the listed tree sizes with arbitrary vote tallies (one record per cell, node of its level, one root-to-leaf path; flatten / drop-level + backfill), and (b) the real mapping dispatch (runner -> dispatch loop -> workers -> gather -> re_order_blob) with symbolic chunk size / worker count, a unique symbolic tag per row and the multiprocessing model: record i carries cell id i and the data of row i.",
      "vote tallies arbitrary (assemble_query_data / tally_votes replaced by harness oracles; their real code is checked in C02/C08); multiprocessing, h5py, obs reader, per-chunk JSON files replaced by models; marker-table reconciliation for accepted trees is in C08; argschema CLI and GPU path outside",
      "DESIGN.md §4 C01")
claim('C04',
      "Bounded symbolic model checking of the real mapping dispatch under a symbolic scheduler: every completion order of up to 3 (thorough 4) concurrently running workers, both gather modes, symbolic chunk size and worker count; the result is proved to be a function of inputs, seed draws and the documented chunking only. Hash-seed independence: the level loop is re-run with every iteration order of every set it builds.",
      "claimed for the mapping stage dispatch and the set-iterating mapping kernels only; worker bodies are atomic w.r.t. each other (granularity at which the real code synchronises); OS scheduling, BLAS threads and the other stages' dispatch loops are outside (their worker-count independence is covered in C09/C13 where claimed)",
      "DESIGN.md §4 C04")
claim('C14',
      "Bounded symbolic model checking with a fault model: winnow_process_list/dict for every combination of unfinished / finished workers with symbolic exit codes; the real mapping dispatch with one abnormal worker termination chosen symbolically (which worker, failure mode before/killed/after/raise-at-step, every completion order): the call raises iff some worker terminated abnormally.",
      "mapping stage only in the quick tier; abnormal termination is modelled at the exitcode interface of multiprocessing.Process (what the code inspects); a worker that exits 0 without doing its work is outside",
      "DESIGN.md §4 C14")
claim('C06',
      "Bounded symbolic model checking, relational: the real level loop is run on the row sets [A,B], [A], [B,A], [A,A,B] inside one solver context with a vote oracle that is a function of the row content; A's (and B's) records are proved identical field by field. The per-row assumption is discharged on the real kernels (nearest-neighbour search and CPM normalisation of a row are independent of the other rows, NRA), and with bootstrap factor 1 tally_votes is proved to hand all markers to the kernel for every draw of the generator.",
      "chunk-size / worker-count independence of the dispatch is the C01/C04 dispatch harness; floats as exact reals (BLAS batch-shape rounding outside)",
      "DESIGN.md §4 C06")
claim('C07',
      "Bounded symbolic model checking of the real normalisation code (scale invariance of CPM for all non-negative rows and all k>0, raw+normalise == declared log2(CPM+1), NRA with log2 uninterpreted), of the real marker-cache + assemble_query_data chain under gene permutation / extra genes (term identity of the kernel inputs), and of is_data_ge_zero on the h5 model (every pattern, symbolic signed values, dense/CSR/CSC, chunked and contiguous).",
      "floats as exact reals; log2 uninterpreted (only congruence used); h5py model",
      "DESIGN.md §4 C07")
claim('C09',
      "Bounded symbolic model checking of the real reference-statistics stage in memory (dispatch, work split, per-chunk routing by cell name, summary kernel, buffer merge, empty-file creation) on the h5 / multiprocessing models: every labelling of the cells (any cluster or unlabelled), symbolic expression values, symbolic rows_at_a_time and worker count, 1-2 files, dense/CSR; every written table is proved equal to the direct definition (counts exactly, sums as reals).",
      "quick tier does not yet cover coarsening (truncate_precompute) and per-dataset merging; floats as reals (summation order outside); log2 uninterpreted for raw input",
      "DESIGN.md §4 C09")
claim('C17',
      "Bounded symbolic model checking, relational: for every child->parent map of the listed sizes and every reduction (flatten / drop of each non-leaf level) the real reduced tree is proved equal to an independently built taxonomy that never had the level, the real level loop is run on both with one shared vote oracle and the records are proved identical, and the back-filled levels are proved to be the ancestors. The marker side: real create_marker_cache_from_specified_markers on the reduced tree gives the same cache with and without the marker lists of the removed parents, for every table / query subset in the bounds.",
      "the _run_mapping call sequence itself (reduce before reconciliation, original tree kept for output, union of lists when flattening) is not yet covered by a stage-level harness",
      "DESIGN.md §4 C17")
claim('C15',
      "Bounded exploration of the real run_mapping on real files (real h5py / pandas / anndata), the solver enumerating the run configurations (no reduction / flatten / drop of each level / unknown level, 1 or 7 iterations, 0-2 runners-up, worker count, name tables present or absent): on every path the CSV is parsed back and compared with the JSON records through the taxonomy's name tables, the HDF5 file is read back with hdf5_to_blob and compared field by field, and the embedded taxonomy / marker table are compared with the inputs.",
      "data values are fixed concrete numbers (I/O-driven code: once the configuration is fixed every obligation is a concrete evaluation on the written files); the four-decimal rendering is compared against Python's own '%.4f'; argschema CLI layer outside",
      "DESIGN.md §4 C15")
claim('C19',
      "Bounded exploration of the real run_mapping on real files with solver-chosen failure point (none / any worker in three modes / any of five environment steps before or after its work), solver-chosen planting of stale files under every name pattern the stage uses in scratch and output directories, dense / CSC query: input digests, scratch-directory listing, output-directory listing and independence of the result from stale files are checked on every path.",
      "mapping stage only; concurrency of two OS processes on one directory is not modelled (mkdtemp uniqueness trusted); the other stages' scratch handling is checked only where their harness lists the scratch directory (C09, C13)",
      "DESIGN.md §4 C19")
claim('C20',
      "Bounded exploration of the real run_mapping with cloud_safe=True on real files: the solver chooses punctuation in directory / file names and how the run ends (success, five classes of invalid input, worker failure, failing environment step before/after); the JSON config and log, the log file and the HDF5 metadata are scanned for the sandbox root and the installation directory.",
      "names with spaces are outside (as in the property); third-party exception texts as an open set are outside; absence of a leak is established only for the messages these endings produce",
      "DESIGN.md §4 C20")
claim('C11',
      "Bounded symbolic model checking of the real marker criteria kernels with everything symbolic: Holm correction (equal to the textbook step-down formula, and the restricted variant decides 'below threshold' identically) for 1-3 (4) p-values; exact and approximate penetrance tests (soundness w.r.t. the floors, completeness w.r.t. the strict thresholds, exactness) with all six thresholds, penetrances, fold changes and n_valid symbolic; the Welch statistic / Welch-Satterthwaite identity (NRA); the p-value-mask validity rule; score_differential_genes with arbitrary corrected p-values (cluster-size rule, validity = p AND penetrance, direction, pair swap).",
      "the numerical value of the Student-t / normal CDF (scipy) and the boring_t / big_nu short-cuts are outside; float16 storage of the mask is modelled as 'exactly -1 or >= resolution'; assembly of the pair-major / gene-major tables is not in the quick tier",
      "DESIGN.md §4 C11")
claim('C12',
      "Bounded exhaustive exploration with the solver as enumerator: the real per-parent selection (worker entry point -> select_marker_genes_v2 -> _run_selection and helpers) on an in-memory MarkerGeneArray for every marker table (each gene x leaf pair none/up/down), every query gene subset, every target in the bounds and every parent of a two-level taxonomy; the coverage guarantee, absence of duplicates, membership in the query and relevance of every selected gene are evaluated against a census computed by the harness from the table bits.",
      "every input dimension is concrete on each path (tables of bits) - no arithmetic stays symbolic; genes_at_a_time fixed at its default 1 (the property does not quantify over it); select_all_markers scheduling not covered",
      "DESIGN.md §4 C12")
claim('C16',
      "Bounded symbolic model checking of rounding + integer-type choice on the h5 model (symbolic values incl. narrow windows around 255.5, 65535.5, -128.5, 0: every value moves by <= 1/2 to an integer the chosen type can hold, integer-valued input untouched; stores into integer datasets carry 'fits the declared type' obligations); exhaustive exploration of identifier mapping over 12 kinds of names; z3 string-theory lemmas on the live Ensembl pattern; and the whole validate_h5ad on real anndata files for every mix of gene-name kinds / encodings / layer / rounding flag / value class (input digest unchanged, same cells/genes/order, X equal to the layer or rounded, recorded mapping and count, rejection classes, no-change => no file).",
      "the code's 1e-10 'is an integer' tolerance is part of the oracle; floats as reals in the symbolic harness (np.round half-to-even modelled exactly on reals); uns/obsm preservation by anndata is not claimed",
      "DESIGN.md §4 C16")
claim('C18',
      "Bounded symbolic model checking of the kernel fact (a query equal to leaf k's profile gets every vote with correlation 1 through the real correlation kernel and tally_votes, for symbolic profiles, under the property's own precondition; NRA with lemmas 'corr(k,k)=1' and 'corr<=1' discharged on the kernel's output), of get_leaf_means through the file's own cluster/gene tables (every row and gene order, symbolic tables), and exploration of the real run_mapping on real files with a centroid query for every gene order / bootstrap factor / seed / worker count in the bounds.",
      "floats as reals for the kernel fact; single-gene subsets outside (every row is constant there); upstream stages (statistics, reference markers, selection) are not chained in this check - their outputs are covered in C09/C11/C12",
      "DESIGN.md §4 C18")
CHECKS['C12']['text'] += " The whole stage is also run on real files: select_all_markers on a reference-marker file written by the real reference-marker stage, for every query gene subset / worker count / large-parent threshold in the bounds, compared with the single-worker default run."
CHECKS['C12']['note'] = "per-parent harness: every input dimension is concrete on each path (tables of bits); genes_at_a_time fixed at its default 1; stage harness: fixed reference data (5 leaves, 6 genes), multiprocessing replaced by the model (workers inline)"
CHECKS['C11']['text'] += " The assembly of the pair-major and gene-major tables is covered by running the real find_markers_for_all_taxonomy_pairs on real files (solver-chosen cluster sizes, worker count, exact/approximate penetrance, n_valid, gene list): exact transposes, no gene both up and down, cluster-size rule, gene list, direction, strict-threshold completeness / exactness against an oracle computed from the per-cell data, independence of the worker count."
CHECKS['C14']['text'] += " The reference-marker stage (marker workers and the parallel transposition workers) is under the same fault model on real files: any abnormal worker => the call raises and nothing appears at the requested output path."
