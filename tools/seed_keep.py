#!/usr/bin/env python3
"""seed_keep.py <PROP> <src dir> <name> <detected_by...>: store a confirmed seeded change under /verif/seeded"""
import json, os, shutil, sys
prop, src, name = sys.argv[1:4]
detected = sys.argv[4:]
dst = f"/verif/seeded/{prop}-{name}"
os.makedirs(dst, exist_ok=True)
shutil.copy(f"{src}/patch.diff", dst)
shutil.copy(f"{src}/demo.py", dst)
meta = json.load(open(f"{src}/meta.json"))
meta['property'] = prop
if os.path.exists(f"{src}/confirm.txt"):
    meta['confirmed_in_scratch_worktree'] = open(f"{src}/confirm.txt").read().strip()
meta['what_i_ran'] = ("tools/seed_confirm.sh (scratch worktree: demo on clean tree, demo with the change, full pinned suite compared "
                      "with BASELINE.json stable_pass); tools/seed_check.sh (git apply to /repo, ./check, git checkout)")
meta['detected_by'] = detected
json.dump(meta, open(f"{dst}/meta.json", 'w'), indent=1)
print(dst)
