#!/bin/bash
# runs the pinned suite and compares with BASELINE.json stable_pass
OUT=${1:-/tmp/baseline.junit.xml}
cd /repo && /venv/bin/python -m pytest -ra -q -p no:cacheprovider --timeout=900 --continue-on-collection-errors --junitxml=$OUT > /tmp/baseline.log 2>&1
python3 - "$OUT" <<'PY'
import json,sys,xml.etree.ElementTree as ET
base=set(json.load(open('/root/.vp/BASELINE.json'))['stable_pass'])
passed=set()
for tc in ET.parse(sys.argv[1]).getroot().iter('testcase'):
    if not any(c.tag in('failure','error','skipped') for c in tc):
        passed.add(tc.get('classname')+'::'+tc.get('name'))
miss=sorted(base-passed)
print('baseline stable_pass',len(base),'passed now',len(passed),'missing',len(miss))
for m in miss[:20]: print('  MISSING',m)
PY
