#!/bin/bash
# usage: seed_confirm.sh <PROP> <mK dir> : confirm a seeded change in a scratch worktree
# (demo passes clean / fails mutant; the baseline-passing tests still pass)
P=$1; D=$2; WT=/tmp/wt_confirm_$$_$(basename $D)
git -C /repo worktree add -q --detach $WT HEAD || exit 9
cd $WT
res_clean=$(PYTHONPATH=$WT/src timeout 600 /venv/bin/python $D/demo.py 2>&1 | tail -1); rc_clean=$?
git apply $D/patch.diff || { echo "APPLY-FAIL"; git -C /repo worktree remove --force $WT; exit 8; }
res_mut=$(PYTHONPATH=$WT/src timeout 600 /venv/bin/python $D/demo.py 2>&1 | tail -1)
PYTHONPATH=$WT/src /venv/bin/python -m pytest -q -p no:cacheprovider --timeout=900 --continue-on-collection-errors --junitxml=$D/confirm.junit.xml tests > $D/confirm.log 2>&1
python3 - "$D/confirm.junit.xml" <<'PY' > $D/confirm_tests.txt
import json,sys,xml.etree.ElementTree as ET
base=set(json.load(open('/root/.vp/BASELINE.json'))['stable_pass'])
passed=set()
for tc in ET.parse(sys.argv[1]).getroot().iter('testcase'):
    if not any(c.tag in('failure','error','skipped') for c in tc):
        passed.add(tc.get('classname')+'::'+tc.get('name'))
miss=sorted(base-passed)
print('missing',len(miss), miss[:5])
PY
echo "$P $(basename $D) clean=[$res_clean] mutant=[$res_mut] tests=[$(cat $D/confirm_tests.txt)]" | tee $D/confirm.txt
cd /; git -C /repo worktree remove --force $WT
