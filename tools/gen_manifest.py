#!/usr/bin/env python3
"""regenerates MANIFEST.json from the table below (kept valid at all times)"""
import json, os
V = os.path.dirname(os.path.dirname(os.path.abspath(__file__)))
TECH = ("dynamic symbolic execution of the real /repo functions (z3-backed scalars in numpy object arrays, "
        "fork-by-replay path exploration); every obligation decided by z3 (unsat of the negation) per path within "
        "stated bounds; a sample of the discharged obligations re-decided by cvc5; counterexamples replayed on the "
        "unmodified code before being reported")
CHECKS = {}
def claim(pid, text, note, design):
    CHECKS[pid] = dict(text=text, note=note, design=design)

exec(open(os.path.join(V, 'tools', 'claims.py')).read())

props = [json.loads(l)['id'] for l in open(os.path.join(V, 'properties.jsonl'))]
NA = json.load(open(os.path.join(V, 'tools', 'not_applicable.json')))
m = {
 "version": 1,
 "setup_cmd": "./setup.sh",
 "hooks": {"guard": "CELL_TYPE_MAPPER_VERIF", "enable": "none needed: all instrumentation is done by rebinding module globals of the imported cell_type_mapper modules inside the check process; the guard name is reserved and unused",
           "baseline_off_cmd": "cd /repo && /venv/bin/python -m pytest -ra -q -p no:cacheprovider --timeout=900 --continue-on-collection-errors",
           "source_commits": [], "add_only": True},
 "engines": [{"name": "symx", "path": "symx/", "serves_properties": sorted(CHECKS),
              "kind_free_text": "home-built dynamic symbolic executor over z3 4.x/5.x python API; runs the real repository functions on symbolic scalars, environment replaced by nondeterministic models (numpy shim, h5py model, multiprocessing model, rng model)"}],
 "checks": [], "not_applicable": [],
 "notes": "exit codes of ./check: 0 held (KNOWN-FINDING lines allowed), 1 VIOLATION, 2 harness error, 3 inconclusive. The thorough tier explores the quick cases completely and the larger cases within a wall-time box (VERIF_BUDGET_S, default 900 s; 0 = no box); cases cut by the box are listed in the evidence (coverage.time_box) and announced by a PARTIAL line. VERIF_REPO=<checkout> points a check at another checkout of the repository. See DESIGN.md."
}
for pid in props:
    if pid in CHECKS:
        c = CHECKS[pid]
        m["checks"].append({
          "property_id": pid,
          "quick_cmd": f"./check {pid} --tier quick",
          "thorough_cmd": f"./check {pid} --tier thorough",
          "evidence_file": f"evidence/{pid}.json",
          "replay_cmd_template": f"./check {pid} --replay {{path}}",
          "engine": "symx",
          "level_claimed": {"category": "model_checking", "text": c['text'], "design_ref": c['design']},
          "level_note": c['note'],
          "technique": TECH})
    else:
        m["not_applicable"].append({"property_id": pid, "reason": NA.get(pid, "no sound solver-based harness built yet for this property (see DESIGN.md)")})
json.dump(m, open(os.path.join(V, 'MANIFEST.json'), 'w'), indent=1)
print("claimed", sorted(CHECKS), "na", [x['property_id'] for x in m['not_applicable']])
