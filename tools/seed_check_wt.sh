#!/bin/bash
# usage: seed_check_wt.sh <PROP> <patch> [tier]: like seed_check.sh but on a scratch worktree of /repo
# (leaves /repo untouched, so it can run next to other checks); EXTRA="--only name" narrows the run
P=$1; PATCH=$2; TIER=${3:-quick}; WT=/tmp/wt_chk_$$
git -C /repo worktree add -q --detach $WT HEAD || exit 9
git -C $WT apply $PATCH || { echo APPLY-FAIL; git -C /repo worktree remove --force $WT; exit 9; }
LOG=/tmp/seedcheck_${P}_$$.log
cd /verif && VERIF_REPO=$WT timeout 3000 ./check $P --tier $TIER --no-evidence $EXTRA > $LOG 2>&1; rc=$?
git -C /repo worktree remove --force $WT
echo "exit=$rc $(grep -c '^VIOLATION' $LOG) violations; $(grep -m2 'harness=' $LOG | cut -c1-220 | tr '\n' '|')"
