#!/bin/bash
# usage: seed_check.sh <PROP> <patch> [tier]: apply to /repo, run the check, undo
P=$1; PATCH=$2; TIER=${3:-quick}
cd /repo && [ -z "$(git status --porcelain --untracked-files=no)" ] || { echo "REPO-DIRTY: commit or stash first"; exit 7; }
cd /repo && git apply $PATCH || { echo APPLY-FAIL; exit 9; }
cd /verif && timeout 3000 ./check $P --tier $TIER --no-evidence $EXTRA > /tmp/seedcheck_$P.log 2>&1; rc=$?
cd /repo && git checkout -- . 
echo "exit=$rc $(grep -c '^VIOLATION' /tmp/seedcheck_$P.log) violations; $(grep -m2 'harness=' /tmp/seedcheck_$P.log | cut -c1-220 | tr '\n' '|')"
