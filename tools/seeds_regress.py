#!/usr/bin/env python3
"""tools/seeds_regress.py [lanes] [done-file]: re-run, for every stored seeded change, the quick check named
in its detected_by (on a scratch worktree of /repo; only the harness named first, falling back to the whole
check) and report the ones that are no longer caught.  Lines of an earlier run given as done-file are skipped."""
import glob, json, os, re, subprocess, sys
from concurrent.futures import ThreadPoolExecutor
lanes = int(sys.argv[1]) if len(sys.argv) > 1 else 2
DONE = set()
if len(sys.argv) > 2 and os.path.exists(sys.argv[2]):
    for ln in open(sys.argv[2]):
        if ln.startswith('ok'):
            DONE.add(ln.split()[1])
todo = []
for d in sorted(glob.glob('/verif/seeded/*')):
    m = json.load(open(d + '/meta.json'))
    by = ' '.join(m.get('detected_by') or [])
    if 'UNDETECTED' in by or 'NEUTRALISED' in by or os.path.basename(d) in DONE:
        continue
    mm = re.search(r'C\d\d', by)
    prop = mm.group(0) if mm else os.path.basename(d)[:3]
    hm = re.search(r'C\d\d(?: quick)?:\s*([a-z_0-9]+)', by)
    todo.append((os.path.basename(d), prop, d + '/patch.diff', hm.group(1) if hm else ''))


def run(prop, patch, env):
    r = subprocess.run(['/verif/tools/seed_check_wt.sh', prop, patch], capture_output=True, text=True, env=env)
    out = r.stdout.strip().split('\n')[-1][:160]
    return out, out.startswith('exit=1') and ' 0 violations' not in out


def one(t):
    name, prop, patch, only = t
    env = dict(os.environ, SYMX_PROCS=str(max(2, 16 // lanes)))
    if only:
        env['EXTRA'] = '--only ' + only
    out, ok = run(prop, patch, env)
    if not ok and only:
        env.pop('EXTRA', None)
        out, ok = run(prop, patch, env)
    print(('ok   ' if ok else 'MISS ') + f"{name} [{prop} {only}] {out}", flush=True)
    return ok


with ThreadPoolExecutor(lanes) as ex:
    res = list(ex.map(one, todo))
print(f"{sum(res)}/{len(res)} still caught (+{len(DONE)} from the earlier run)")
