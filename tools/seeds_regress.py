#!/usr/bin/env python3
"""tools/seeds_regress.py [lanes]: re-run, for every stored seeded change, the quick check named in its
detected_by (on a scratch worktree of /repo) and report the ones that are no longer caught."""
import glob, json, os, re, subprocess, sys
from concurrent.futures import ThreadPoolExecutor
lanes = int(sys.argv[1]) if len(sys.argv) > 1 else 2
todo = []
for d in sorted(glob.glob('/verif/seeded/*')):
    m = json.load(open(d + '/meta.json'))
    by = ' '.join(m.get('detected_by') or [])
    if 'UNDETECTED' in by:
        continue
    mm = re.search(r'C\d\d', by)
    prop = mm.group(0) if mm else os.path.basename(d)[:3]
    todo.append((os.path.basename(d), prop, d + '/patch.diff'))


def one(t):
    name, prop, patch = t
    env = dict(os.environ, SYMX_PROCS=str(max(2, 16 // lanes)))
    r = subprocess.run(['/verif/tools/seed_check_wt.sh', prop, patch], capture_output=True, text=True, env=env)
    out = r.stdout.strip().split('\n')[-1][:160]
    ok = out.startswith('exit=1') and ' 0 violations' not in out
    print(('ok   ' if ok else 'MISS ') + f"{name} [{prop}] {out}", flush=True)
    return ok


with ThreadPoolExecutor(lanes) as ex:
    res = list(ex.map(one, todo))
print(f"{sum(res)}/{len(res)} still caught")
