"""In-memory model of h5py, enough for cell_type_mapper.  It stores values
(possibly symbolic), not bytes, and enforces the h5py preconditions the
repository code is exposed to (validated against the real library in
selftests/h5_contract.py):

* chunk shape: right rank, every dimension > 0 and <= the data shape
* fancy (list / array) selections must be strictly increasing
* no write through a handle opened 'r'; no duplicate names
* opening a missing file for reading fails

A real placeholder file carrying a token is kept at every path so that
pathlib / shutil / iterdir keep their real semantics."""
import copy as _copy
import os
import pathlib

import numpy as _np

from . import core
from .core import Sym, ShimGap
from .npshim import SArr, sarr, _fixidx, _has_sym, _range_obligation

STORE = {}        # token -> _GroupNode
OWNER = {}        # token -> path that owns it
OPENS = []        # (path, mode) of every File() call
_TOK = [0]
MAGIC = b'SYMXH5:'


def reset():
    STORE.clear()
    OWNER.clear()
    OPENS.clear()


class _Attrs(dict):
    def __init__(self, ro=lambda: False):
        super().__init__()
        self._ro = ro

    def create(self, name, data, **k):
        self[name] = data

    def __setitem__(self, k, v):
        super().__setitem__(k, v)


class _DsNode:
    def __init__(self, arr, dtype, chunks, compression=None,
                 compression_opts=None):
        self.arr = arr
        self.dtype = dtype
        self.chunks = chunks
        self.compression = compression
        self.compression_opts = compression_opts
        self.attrs = _Attrs()


class _GroupNode:
    def __init__(self):
        self.children = {}
        self.attrs = _Attrs()


def _check_chunks(chunks, shape, maxshape=None):
    if chunks is None or chunks is True:
        return None if chunks is None else tuple(max(1, s) for s in shape) \
            if all(s > 0 for s in shape) else None
    if isinstance(chunks, (int, _np.integer, Sym)):
        chunks = (chunks,)
    chunks = tuple(int(c) for c in chunks)
    if len(shape) == 0:
        raise TypeError("Scalar datasets don't support chunk/filter options")
    if len(chunks) != len(shape):
        raise ValueError("Chunk shape must have the same rank as the "
                         "dataset")
    if any(c <= 0 for c in chunks):
        raise ValueError("All chunk dimensions must be positive "
                         "(all chunk dimensions must be positive)")
    # a chunk may exceed the current shape only along a resizable
    # dimension (that is how anndata stores an empty array: shape (0,),
    # chunks (1024,), maxshape (None,))
    ms = tuple(maxshape) if maxshape is not None else shape
    if any(c > s and (m is not None and c > m)
           for c, s, m in zip(chunks, shape, ms)):
        raise ValueError("Chunk shape must not be greater than data shape "
                         f"in any dimension. {chunks} is not compatible "
                         f"with {shape}")
    return chunks


def _check_fancy(k, shape):
    """h5py: index arrays must be strictly increasing; only one of them"""
    ks = k if isinstance(k, tuple) else (k,)
    n_fancy = 0
    for ax, x in enumerate(ks):
        if isinstance(x, (list, _np.ndarray)):
            a = _np.asarray(x)
            if a.dtype == bool:
                continue
            n_fancy += 1
            if a.ndim != 1:
                raise TypeError("PointSelection __getitem__ only works "
                                "with bool arrays")
            if a.size > 1 and _np.any(_np.diff(a) <= 0):
                raise TypeError("Indexing elements must be in increasing "
                                "order")
            if a.size and (a.max() >= shape[ax] or a.min() < -shape[ax]):
                raise IndexError(f"Index ({a.max()}) out of range for "
                                 f"(0-{shape[ax] - 1})")
    if n_fancy > 1:
        raise TypeError("Only one indexing vector or array is currently "
                        "allowed for fancy indexing")


class Dataset:
    def __init__(self, node, fh, name):
        self._n, self._f, self.name = node, fh, name

    @property
    def shape(self):
        a = self._n.arr
        return a.shape if isinstance(a, _np.ndarray) else ()

    @property
    def ndim(self):
        return len(self.shape)

    @property
    def size(self):
        return int(_np.prod(self.shape)) if self.shape else 1

    @property
    def dtype(self):
        return self._n.dtype

    @property
    def chunks(self):
        return self._n.chunks

    @property
    def maxshape(self):
        ms = getattr(self._n, 'maxshape', None)
        return ms if ms is not None else tuple(self.shape)

    @property
    def compression(self):
        return self._n.compression

    @property
    def compression_opts(self):
        return self._n.compression_opts

    @property
    def attrs(self):
        return self._n.attrs

    @property
    def file(self):
        return self._f

    def __len__(self):
        if not self.shape:
            raise TypeError("Attempt to take len() of scalar dataset")
        return self.shape[0]

    def _live(self):
        if self._f.closed:
            raise ValueError("Invalid dataset identifier (invalid dataset "
                             "identifier)")

    def __getitem__(self, k):
        self._live()
        a = self._n.arr
        if not isinstance(a, _np.ndarray):
            if k == () or k is Ellipsis:
                return a
            raise ValueError("Illegal slicing argument for scalar "
                             "dataspace")
        k = _fixidx(k)
        if isinstance(k, tuple) and len(k) == 0 or k is Ellipsis:
            return self._typed(_out(a.copy()))
        _check_fancy(k, a.shape)
        r = a[k]
        if isinstance(r, _np.ndarray):
            return self._typed(_out(r.copy()))
        return r

    def _typed(self, r):
        if isinstance(r, SArr) and self._n.dtype is not None and \
                _np.dtype(self._n.dtype).kind in 'iu':
            from .npshim import tagged
            r = tagged(r, _np.dtype(self._n.dtype))
        return r

    def __setitem__(self, k, v):
        self._live()
        if self._f.mode == 'r':
            raise OSError("Can't write data (no write intent on file)")
        a = self._n.arr
        if not isinstance(a, _np.ndarray):
            if k == () or k is Ellipsis:
                self._n.arr = v
                return
            raise ValueError("Illegal slicing argument for scalar "
                             "dataspace")
        k = _fixidx(k)
        if not (isinstance(k, tuple) and len(k) == 0) and k is not Ellipsis:
            _check_fancy(k, a.shape)
        if isinstance(v, Dataset):
            v = v[()]
        if a.dtype != object and _has_sym(v):
            self._n.arr = a = a.astype(object)
        if self._n.dtype is not None and core.CUR is not None \
                and core.CUR.mode == 'sym' and \
                _np.dtype(self._n.dtype).kind in 'iu':
            _range_obligation(_np.dtype(self._n.dtype), v)
        a[k] = v

    def read_direct(self, dest, *a, **k):
        raise ShimGap('read_direct')

    def astype(self, dt):
        raise ShimGap('Dataset.astype')

    def __array__(self, dtype=None, copy=None):
        a = self._n.arr
        return _np.asarray(a, dtype=dtype)

    def __iter__(self):
        for i in range(len(self)):
            yield self[i]


def _out(a):
    if a.dtype == object:
        return a.view(SArr)
    return a


def _np_dtype_of(data):
    if isinstance(data, Dataset):
        return data.dtype
    if isinstance(data, SArr):
        return data.decl if data.decl is not None else _np.dtype(float)
    if isinstance(data, _np.ndarray):
        return data.dtype
    if isinstance(data, (bytes, str)):
        return _np.dtype(object)
    if isinstance(data, (list, tuple)) and _has_sym(data):
        return _np.dtype(float)
    return _np.asarray(data).dtype


class Group:
    def __init__(self, node, fh, name):
        self._n, self._f, self.name = node, fh, name

    @property
    def attrs(self):
        return self._n.attrs

    @property
    def file(self):
        return self._f

    def _walk(self, path, create=False):
        if isinstance(path, bytes):
            path = path.decode()
        parts = [p for p in str(path).split('/') if p]
        node = self._f._root if str(path).startswith('/') else self._n
        for p in parts[:-1]:
            if p not in node.children:
                if not create:
                    raise KeyError(f"Unable to open object (component "
                                   f"not found: {p})")
                node.children[p] = _GroupNode()
            node = node.children[p]
            if not isinstance(node, _GroupNode):
                raise KeyError(f"{p} is not a group")
        return node, (parts[-1] if parts else None)

    def _wrap(self, node, name):
        if isinstance(node, _GroupNode):
            return Group(node, self._f, name)
        return Dataset(node, self._f, name)

    def __getitem__(self, path):
        self._f._live()
        node, leaf = self._walk(path)
        if leaf is None:
            return Group(node, self._f, '/')
        if leaf not in node.children:
            raise KeyError(f"Unable to open object (object '{leaf}' "
                           "doesn't exist)")
        return self._wrap(node.children[leaf], f"{self.name}/{path}")

    def __contains__(self, path):
        try:
            node, leaf = self._walk(path)
        except KeyError:
            return False
        return leaf is None or leaf in node.children

    def __delitem__(self, path):
        self._f._writable()
        node, leaf = self._walk(path)
        del node.children[leaf]

    def __setitem__(self, path, value):
        if path in self:
            raise OSError("Unable to create link (name already exists)")
        self.create_dataset(path, data=value)

    def keys(self):
        return list(self._n.children.keys())

    def __iter__(self):
        return iter(list(self._n.children.keys()))

    def __len__(self):
        return len(self._n.children)

    def items(self):
        return [(k, self._wrap(v, k)) for k, v in self._n.children.items()]

    def values(self):
        return [self._wrap(v, k) for k, v in self._n.children.items()]

    def get(self, k, default=None):
        return self[k] if k in self else default

    def create_group(self, path):
        self._f._writable()
        node, leaf = self._walk(path, create=True)
        if leaf in node.children:
            raise ValueError("Unable to create group (name already exists)")
        node.children[leaf] = _GroupNode()
        return Group(node.children[leaf], self._f, f"{self.name}/{path}")

    def require_group(self, path):
        if path in self:
            return self[path]
        return self.create_group(path)

    def create_dataset(self, name, shape=None, dtype=None, data=None,
                       chunks=None, compression=None, compression_opts=None,
                       maxshape=None, **kw):
        self._f._writable()
        node, leaf = self._walk(name, create=True)
        if leaf in node.children:
            raise ValueError("Unable to create dataset (name already "
                             "exists)")
        if data is not None:
            if isinstance(data, Dataset):
                data = data[()]
            if isinstance(data, (bytes, str, _np.bytes_, _np.str_)):
                arr = data.encode('utf-8') if isinstance(data, str) \
                    else bytes(data)
                dt = _np.dtype(object)
            else:
                if dtype is None:
                    dtype = _np_dtype_of(data)
                if isinstance(data, SArr) or _has_sym(data):
                    arr = sarr(data).copy()
                else:
                    arr = _np.array(data)
                    if dtype is not None and arr.dtype.kind not in 'OSU':
                        arr = arr.astype(dtype)
                    if arr.ndim == 0 and arr.dtype.kind in 'SU':
                        arr = arr.item()
                        if isinstance(arr, str):
                            arr = arr.encode('utf-8')
                dt = _np.dtype(dtype) if dtype is not None and \
                    not isinstance(arr, bytes) else _np.dtype(object)
                if isinstance(arr, _np.ndarray) and arr.dtype.kind == 'U':
                    raise TypeError("No conversion path for dtype: "
                                    f"{arr.dtype}")
                if shape is not None:
                    shp = (shape,) if isinstance(
                        shape, (int, _np.integer)) else tuple(shape)
                    if isinstance(arr, _np.ndarray) and \
                            tuple(arr.shape) != tuple(int(s) for s in shp):
                        arr = arr.reshape(shp)
        else:
            if shape is None:
                raise TypeError("One of data, shape or dtype must be "
                                "specified")
            if isinstance(shape, (int, _np.integer, Sym)):
                shape = (shape,)
            shape = tuple(int(s) for s in shape)
            dt = _np.dtype(dtype if dtype is not None else 'f4')
            if dt.kind in 'iufb':
                arr = _np.zeros(shape, dtype=dt)
            else:
                arr = _np.empty(shape, dtype=object)
        shp = arr.shape if isinstance(arr, _np.ndarray) else ()
        if chunks is None and compression is not None and len(shp) > 0:
            chunks = True
        ch = _check_chunks(chunks, shp, maxshape)
        if isinstance(arr, SArr) and dt.kind in 'iu' and \
                core.CUR is not None and core.CUR.mode == 'sym':
            _range_obligation(dt, arr)
        node.children[leaf] = _DsNode(arr, dt, ch, compression,
                                      compression_opts)
        node.children[leaf].maxshape = tuple(maxshape) \
            if maxshape is not None else None
        return Dataset(node.children[leaf], self._f, f"{self.name}/{name}")

    def copy(self, *a, **k):
        raise ShimGap('Group.copy')

    def visit(self, fn):
        def rec(n, prefix):
            for k, v in n.children.items():
                p = f"{prefix}/{k}" if prefix else k
                r = fn(p)
                if r is not None:
                    return r
                if isinstance(v, _GroupNode):
                    r = rec(v, p)
                    if r is not None:
                        return r
        return rec(self._n, '')


def _read_token(path):
    try:
        with open(path, 'rb') as f:
            b = f.read(64)
    except (FileNotFoundError, IsADirectoryError):
        return None
    if b.startswith(MAGIC):
        return b[len(MAGIC):].decode()
    return None


def _write_token(path, tok):
    with open(path, 'wb') as f:
        f.write(MAGIC + tok.encode())


class File(Group):
    def __init__(self, path, mode='r', **kw):
        path = str(pathlib.Path(path))
        self.filename = path
        self.mode = 'r+' if mode == 'a' else mode
        self.closed = False
        from . import mpmodel
        mpmodel.step(f'open {os.path.basename(path)} {mode}')
        OPENS.append((os.path.abspath(path), mode))
        tok = _read_token(path)
        exists = os.path.exists(path)
        if mode == 'r' or mode == 'r+':
            if not exists:
                raise FileNotFoundError(
                    f"[Errno 2] Unable to synchronously open file (unable "
                    f"to open file: name = '{path}', errno = 2, error "
                    "message = 'No such file or directory')")
            if tok is None:
                raise OSError("Unable to synchronously open file (file "
                              "signature not found)")
        elif mode in ('w', 'w-', 'x'):
            if mode != 'w' and exists:
                raise FileExistsError(path)
            tok = None
        elif mode == 'a':
            if exists and tok is None:
                raise OSError("file signature not found")
        else:
            raise ValueError(f"Invalid mode {mode}")
        if tok is None:
            _TOK[0] += 1
            tok = f"t{os.getpid()}_{_TOK[0]}"
            if not os.path.isdir(os.path.dirname(os.path.abspath(path))):
                raise FileNotFoundError(
                    f"[Errno 2] Unable to synchronously create file "
                    f"(unable to open file: name = '{path}')")
            _write_token(path, tok)
            STORE[tok] = _GroupNode()
            OWNER[tok] = os.path.abspath(path)
        else:
            ap = os.path.abspath(path)
            owner = OWNER.get(tok)
            if owner != ap:
                if owner is not None and os.path.exists(owner) and \
                        _read_token(owner) == tok:
                    # the placeholder was copied: deep-copy the content
                    _TOK[0] += 1
                    new = f"t{os.getpid()}_{_TOK[0]}"
                    STORE[new] = _copy.deepcopy(STORE[tok])
                    _write_token(path, new)
                    tok = new
                OWNER[tok] = ap
        self._tok = tok
        self._root = STORE[tok]
        Group.__init__(self, self._root, self, '')

    def _live(self):
        if self.closed:
            raise ValueError("Invalid file identifier")

    def _writable(self):
        self._live()
        if self.mode == 'r':
            raise ValueError("Unable to create / modify (no write intent "
                             "on file)")

    def __enter__(self):
        return self

    def __exit__(self, *a):
        self.close()
        if a and a[0] is None:
            from . import mpmodel
            mpmodel.step(f'closed {os.path.basename(self.filename)}')
        return False

    def close(self):
        self.closed = True

    def flush(self):
        pass


class H5Module:
    """stands in for the h5py module"""
    File = File
    Dataset = Dataset
    Group = Group

    def __getattr__(self, name):
        raise ShimGap(f"h5py.{name} not modelled")


h5py = H5Module()
