"""Runner: executes the harnesses of one property, replays findings on the
real code, applies known_findings.json, writes the evidence file.

exit 0  held on everything explored (KNOWN-FINDING lines allowed)
exit 1  VIOLATION lines printed (each replayed on the real code first)
exit 2  harness error (shim gap, non-reproducing model, vacuous harness)
exit 3  inconclusive (budget exhausted, solver `unknown`)
"""
import argparse
import importlib
import json
import multiprocessing as mp
import os
import random
import sys
import time
import traceback

VERIF = os.path.dirname(os.path.dirname(os.path.abspath(__file__)))
sys.path.insert(0, VERIF)
os.environ.setdefault('PYTHONDONTWRITEBYTECODE', '1')
sys.dont_write_bytecode = True
import warnings  # noqa: E402
warnings.simplefilter('ignore')

from symx import core  # noqa: E402


class Harness:
    def __init__(self, name, fn, cases=None, tiers=('quick', 'thorough'),
                 setup=None, funcs=(), stubs=(), bounds='', outside='',
                 assumptions=(), classify=None, max_paths=300000,
                 max_s=1500, expect_reach=(), split=0, selftest=0,
                 twin=False, thorough_cases=None, query_timeout_ms=20000,
                 rand=None, selftest_shims=True):
        self.name = name
        self.fn = fn
        self.cases = cases if cases is not None else [{}]
        self.thorough_cases = thorough_cases
        self.tiers = tiers
        self.setup = setup
        self.funcs = list(funcs)
        self.stubs = list(stubs)
        self.bounds = bounds
        self.outside = outside
        self.assumptions = list(assumptions)
        self.classify = classify
        self.max_paths = max_paths
        self.max_s = max_s
        self.expect_reach = list(expect_reach)
        self.split = split
        self.selftest = selftest
        self.twin = twin
        self.query_timeout_ms = query_timeout_ms
        self.rand = rand
        self.selftest_shims = selftest_shims

    def cases_for(self, tier):
        if tier == 'thorough' and self.thorough_cases is not None:
            # everything the quick tier explores, plus the larger cases
            out = list(self.cases)
            for c in self.thorough_cases:
                if c not in out:
                    out.append(c)
            return out
        return self.cases


# ------------------------------------------------------------ child side
def _child(conn, modname, hname, case, mode, payload):
    try:
        import warnings
        warnings.simplefilter('ignore')
        devnull = open(os.devnull, 'w')
        if os.environ.get('SYMX_VERBOSE') != '1':
            sys.stdout = devnull
        mod = importlib.import_module(modname)
        h = {x.name: x for x in mod.HARNESSES}[hname]
        if mode == 'sym':
            out = _run_sym(h, case, payload)
        elif mode == 'replay':
            out = _run_concrete(h, case, payload)
        elif mode == 'selftest':
            out = _run_selftest(h, case, payload)
        else:
            raise ValueError(mode)
        conn.send(out)
    except BaseException:
        conn.send({'status': 'error', 'error': traceback.format_exc()})
    finally:
        try:
            from harness import common as _c
            _c.cleanup_sandbox()
        except BaseException:
            pass
        conn.close()
        os._exit(0)


def _run_sym(h, case, payload):
    seeds = payload.get('seeds')
    t0 = time.time()
    if h.setup:
        h.setup(case, 'sym')
    if core.XCHECK['every']:
        # jobs are short: start the sampling counter at a job-specific
        # offset so that the sample is spread over all of them
        import zlib
        core.XCHECK['n'] = zlib.crc32(repr((h.name, case, seeds)).encode()
                                      ) % core.XCHECK['every']
    ctx = core.SymCtx(max_paths=h.max_paths, max_s=h.max_s,
                      query_timeout_ms=h.query_timeout_ms)
    status = 'ok'
    err = None
    frontier = []
    try:
        frontier = ctx.explore(lambda c: h.fn(c, case), seeds=seeds,
                               stop_when_frontier=payload.get('frontier'),
                               yield_after=payload.get('yield_after'),
                               deadline=payload.get('deadline'))
    except core.Budget as b:
        status, err = 'inconclusive', f"budget: {b}"
    except core.ShimGap:
        status, err = 'error', 'ShimGap\n' + traceback.format_exc()
    except core.ReplayMismatch:
        status, err = 'error', 'ReplayMismatch\n' + traceback.format_exc()
    except BaseException:
        status, err = 'error', traceback.format_exc()
    return {'status': status, 'error': err, 'stats': ctx.stats.as_dict(),
            'findings': ctx.findings, 'reached': ctx.reached,
            'samples': ctx.samples, 'outcomes': ctx.outcomes,
            'aborts': ctx.abort_reasons, 'frontier': frontier,
            'unknown_labels': ctx.unknown_labels[:10],
            'wall_s': time.time() - t0}


def _run_concrete(h, case, payload):
    """replay a witness on the real code with the real libraries"""
    if h.setup:
        h.setup(case, 'concrete')
    ctx = core.ConcreteCtx(payload['witness'])
    label = None
    aborted = None
    try:
        label = ctx.run(lambda c: h.fn(c, case))
    except core.PathAbort as a:
        aborted = a.why
    return {'status': 'ok', 'failed': ctx.failed, 'passed': len(ctx.passed),
            'exceptions': ctx.exceptions, 'label': str(label),
            'aborted': aborted, 'missing': ctx.missing, 'notes':
            {k: repr(v)[:500] for k, v in ctx.notes.items()}}


class RandomCtx(core.ConcreteCtx):
    """concrete context whose inputs are drawn at random within the
    declared bounds (used only to validate the shims against the real
    libraries; never decides a property)"""

    def __init__(self, rng, recorded=None):
        super().__init__({})
        self.rng = rng
        self.rec = {} if recorded is None else recorded
        self.replaying = recorded is not None

    def _draw(self, name, f):
        if name in self.rec:
            return self.rec[name]
        if self.replaying:
            raise core.ShimGap(f"selftest divergence: new input {name}")
        v = f()
        self.rec[name] = v
        return v

    def int(self, name, lo=None, hi=None):
        lo = -3 if lo is None else int(lo)
        hi = lo + 6 if hi is None else int(hi)
        return self._draw(name, lambda: self.rng.randint(lo, hi))

    def real(self, name, lo=None, hi=None, lo_strict=False,
             hi_strict=False):
        lo_ = -4.0 if lo is None else float(lo)
        hi_ = lo_ + 8.0 if hi is None else float(hi)

        def f():
            r = self.rng.random()
            if r < 0.15 and not lo_strict:
                return lo_
            if r < 0.3 and not hi_strict:
                return hi_
            if r < 0.6:
                # coarse grid => ties / equal values are likely
                k = self.rng.randint(1, 7)
                return lo_ + (hi_ - lo_) * k / 8.0
            v = self.rng.uniform(lo_, hi_)
            if (lo_strict and v == lo_) or (hi_strict and v == hi_):
                v = (lo_ + hi_) / 2
            return v
        return self._draw(name, f)

    def bool(self, name):
        return self._draw(name, lambda: self.rng.random() < 0.5)
    flag = bool

    def choice(self, name, n):
        if n <= 0:
            raise core.PathAbort('empty choice')
        return self._draw(name, lambda: self.rng.randrange(n))


def _run_selftest(h, case, payload):
    """differential validation: same random concrete inputs through the
    harness body (a) with the real libraries, (b) under the shims."""
    n = payload['n']
    rng = random.Random(payload['seed'])
    recs = []
    real_out = []
    fails = []
    if h.setup:
        h.setup(case, 'concrete')
    for i in range(n):
        ctx = RandomCtx(rng)
        try:
            label = ctx.run(lambda c: h.fn(c, case))
        except core.PathAbort as a:
            label = f"abort:{a.why}"
        recs.append(ctx.rec)
        real_out.append((str(label), sorted(ctx.failed),
                         [e.split(':')[0] for e in ctx.exceptions],
                         len(ctx.passed)))
    agree = n
    mism = []
    if h.selftest_shims and h.setup:
        h.setup(case, 'shimmed-concrete')
        for i in range(n):
            ctx = RandomCtx(rng, recorded=recs[i])
            try:
                label = ctx.run(lambda c: h.fn(c, case))
            except core.PathAbort as a:
                label = f"abort:{a.why}"
            got = (str(label), sorted(ctx.failed),
                   [e.split(':')[0] for e in ctx.exceptions],
                   len(ctx.passed))
            if got != real_out[i]:
                agree -= 1
                mism.append({'inputs': recs[i], 'real': real_out[i],
                             'shim': got})
    for i in range(n):
        if real_out[i][1] or real_out[i][2]:
            fails.append({'inputs': recs[i], 'real': real_out[i]})
    return {'status': 'ok', 'n': n, 'agree': agree, 'mismatches': mism[:5],
            'concrete_failures': fails[:5]}


# ------------------------------------------------------------ parent side
class Job:
    def __init__(self, modname, h, case, mode, payload):
        self.modname, self.h, self.case = modname, h, case
        self.mode, self.payload = mode, payload
        self.result = None
        self.attempts = 0
        self.died = False

    def start(self):
        ctxm = mp.get_context('fork')
        self.parent_conn, child_conn = ctxm.Pipe(duplex=False)
        self.proc = ctxm.Process(target=_child, args=(
            child_conn, self.modname, self.h.name, self.case, self.mode,
            self.payload))
        self.proc.start()
        child_conn.close()
        self.t0 = time.time()

    def poll(self):
        if self.parent_conn.poll(0):
            try:
                self.result = self.parent_conn.recv()
            except EOFError:
                self.died = True
                self.result = {'status': 'error',
                               'error': 'child died without result '
                               f'(exit {self.proc.exitcode})'}
            self.proc.join()
            self._release()
            return True
        if not self.proc.is_alive():
            if self.parent_conn.poll(0.2):
                return self.poll()
            self.died = True
            self.result = {'status': 'error',
                           'error': f'child died (exit {self.proc.exitcode})'}
            self._release()
            return True
        return False

    def _release(self):
        # thousands of jobs per run: do not keep their pipes open
        try:
            self.parent_conn.close()
        except Exception:
            pass
        try:
            self.proc.close()
        except Exception:
            pass


def run_jobs(jobs, nproc=None, on_done=None, deadline=None, on_drop=None):
    """run jobs on a pool of forked processes; on_done(job) may return
    follow-up jobs (used to re-queue unexplored prefixes).  Jobs with a
    lower `prio` start first; after `deadline` no further job is started
    (on_drop is told about each one left)"""
    nproc = nproc or int(os.environ.get('SYMX_PROCS', os.cpu_count() or 4))
    pending = list(jobs)
    running = []
    done = []
    while pending or running:
        if deadline is not None and pending and time.time() > deadline:
            for j in pending:
                if on_drop is not None:
                    on_drop(j)
            pending = []
        while pending and len(running) < nproc:
            i = min(range(len(pending)),
                    key=lambda k: getattr(pending[k], 'prio', 0))
            j = pending.pop(i)
            j.start()
            running.append(j)
        still = []
        for j in running:
            if j.poll():
                if j.died and j.attempts < 2:
                    # the worker process was killed from outside (seen on
                    # loaded machines): the job is deterministic, run it
                    # again
                    j.attempts += 1
                    j.died = False
                    j.result = None
                    pending.append(j)
                    continue
                done.append(j)
                if on_done is not None:
                    pending.extend(on_done(j) or [])
            else:
                still.append(j)
        running = still
        if running:
            time.sleep(0.01)
    return done


def load_known():
    p = os.path.join(VERIF, 'known_findings.json')
    if not os.path.exists(p):
        return []
    return json.load(open(p))['findings']


def main(argv=None):
    ap = argparse.ArgumentParser()
    ap.add_argument('prop')
    ap.add_argument('--tier', default=os.environ.get('VERIF_TIER', 'quick'))
    ap.add_argument('--replay')
    ap.add_argument('--only', help='run only harnesses whose name '
                    'contains this')
    ap.add_argument('--selftest', action='store_true')
    ap.add_argument('--no-evidence', action='store_true')
    args = ap.parse_args(argv)
    prop = args.prop
    tier = args.tier if args.tier in ('quick', 'thorough') else 'quick'
    core.XCHECK['every'] = int(os.environ.get(
        'VERIF_XCHECK', '200' if tier == 'quick' else '50'))
    seed = int(os.environ.get('VERIF_SEED', '0') or 0)
    modname = f"harness.{prop}"
    # import in the parent so that forked children share loaded modules
    mod = importlib.import_module(modname)
    harnesses = [h for h in mod.HARNESSES if tier in h.tiers]
    if args.only:
        harnesses = [h for h in harnesses if args.only in h.name]

    if args.replay:
        return do_replay(mod, modname, args.replay)

    t0 = time.time()
    # ---- phase 1: symbolic exploration (optionally split by frontier)
    jobs = []
    pre = {}
    # the thorough tier is time-boxed: the quick cases are explored first
    # and completely, the larger cases as far as the budget allows; what
    # was left unexplored is stated in the output and in the evidence
    budget = float(os.environ.get(
        'VERIF_BUDGET_S', '900' if tier == 'thorough' else '0') or 0)
    deadline = t0 + budget if budget > 0 else None
    cut = {}

    def note_cut(j, n):
        k = (j.h.name, json.dumps(j.case, sort_keys=True, default=str))
        cut[k] = cut.get(k, 0) + n

    for h in harnesses:
        for ci, case in enumerate(h.cases_for(tier)):
            if h.split:
                j = Job(modname, h, case, 'sym',
                        {'frontier': h.split, 'ci': ci, 'phase': 'split'})
            else:
                j = Job(modname, h, case, 'sym',
                        {'ci': ci, 'yield_after': 300})
            j.prio = 0 if case in h.cases else 1
            if j.prio and deadline is not None:
                j.payload['deadline'] = deadline
            jobs.append(j)
    results = []
    ncpu = os.cpu_count() or 4

    def requeue(j):
        r = j.result
        if j.mode != 'sym':
            return []
        fr = r.get('frontier') if r.get('status') == 'ok' else None
        r['frontier'] = []
        results.append((j.h, j.case, r))
        if not fr:
            return []
        if deadline is not None and getattr(j, 'prio', 0) > 0 and \
                time.time() > deadline:
            note_cut(j, len(fr))
            return []
        # hand the unexplored prefixes out in small batches; a batch that
        # turns out to be large gives the rest back after yield_after paths
        k = max(1, len(fr) // (2 * ncpu) + 1)
        out = [Job(modname, j.h, j.case, 'sym',
                   {'seeds': fr[i:i + k], 'ci': j.payload['ci'],
                    'yield_after': 150})
               for i in range(0, len(fr), k)]
        for x in out:
            x.prio = getattr(j, 'prio', 0)
            if x.prio and deadline is not None:
                x.payload['deadline'] = deadline
        return out

    def dropped(j):
        if getattr(j, 'prio', 0) == 0:
            return
        note_cut(j, len(j.payload.get('seeds') or [None]))
    # jobs of the quick cases are never dropped: give them a queue of
    # their own first
    run_jobs([j for j in jobs if j.prio == 0], on_done=requeue)
    run_jobs([j for j in jobs if j.prio > 0], on_done=requeue,
             deadline=deadline, on_drop=dropped)

    # ---- phase 2: differential self-test of the shims
    st_jobs = []
    for h in harnesses:
        n = h.selftest * (4 if tier == 'thorough' else 1)
        if n:
            for case in h.cases_for(tier)[:4]:
                st_jobs.append(Job(modname, h, case, 'selftest',
                                   {'n': n, 'seed': seed}))
    st_done = run_jobs(st_jobs)

    # ---- aggregate
    total = core.Stats()
    per_h = {}
    status = 'ok'
    errors = []
    all_findings = []
    reached = {}
    samples = []
    for h, case, r in results:
        d = per_h.setdefault(h.name, {
            'cases': 0, 'stats': core.Stats(), 'outcomes': {},
            'aborts': {}, 'wall_s': 0.0})
        d['cases'] += 1
        if r['status'] != 'ok':
            if r['status'] == 'error' or status == 'ok':
                status = r['status'] if status != 'error' else status
            errors.append(f"{h.name} {case}: {r['status']}: "
                          f"{r.get('error')}")
        if 'stats' not in r:
            continue
        d['stats'].add(r['stats'])
        total.add(r['stats'])
        d['wall_s'] += r['wall_s']
        for k, v in r['outcomes'].items():
            d['outcomes'][k] = d['outcomes'].get(k, 0) + v
        for k, v in r['aborts'].items():
            d['aborts'][k] = d['aborts'].get(k, 0) + v
        for k, v in r['reached'].items():
            reached[(h.name, k)] = reached.get((h.name, k), 0) + v
        for s in r['samples'][:2]:
            if len(samples) < 40:
                samples.append({'harness': h.name, 'case': case, **s})
        if r['stats']['unknown']:
            if status == 'ok':
                status = 'inconclusive'
            errors.append(f"{h.name} {case}: solver unknown on "
                          f"{r['unknown_labels']}")
        for f in r['findings']:
            all_findings.append((h, case, f))

    # vacuity: every expected marker reached, every harness ran >= 1 path
    for h in harnesses:
        d = per_h.get(h.name)
        if d is None or d['stats'].paths == 0:
            status = 'error'
            errors.append(f"{h.name}: no path explored (vacuous)")
            continue
        for lab in h.expect_reach:
            if reached.get((h.name, lab), 0) == 0:
                status = 'error'
                errors.append(f"{h.name}: marker '{lab}' never reached "
                              "(vacuous harness)")
        if h.twin and d['stats'].violated == 0:
            status = 'error'
            errors.append(f"{h.name}: reachability twin was NOT violated")

    validated = 0
    for j in st_done:
        r = j.result
        if r['status'] != 'ok':
            status = 'error'
            errors.append(f"selftest {j.h.name}: {r.get('error')}")
            continue
        validated += r['agree']
        if r['agree'] != r['n']:
            status = 'error'
            errors.append(f"selftest {j.h.name} {j.case}: shims disagree "
                          f"with real libraries: {r['mismatches'][:2]}")
        for cf in r['concrete_failures']:
            # a concrete failing input found by the self-test: treat like
            # a finding (it still goes through classification + replay)
            all_findings.append((j.h, j.case, {
                'kind': 'selftest', 'label': str(cf['real']),
                'exc': None, 'witness': cf['inputs'], 'notes': {},
                'path_unknown': False}))

    # ---- findings: classify, dedupe, replay on the real code
    known = [k for k in load_known() if k['property'] == prop]
    groups = {}
    for h, case, f in all_findings:
        if h.twin:
            continue
        sig = None
        if h.classify:
            try:
                sig = h.classify(f, case)
            except Exception:
                sig = None
        key = (h.name, sig or f['label'])
        groups.setdefault(key, []).append((h, case, f, sig))
    rjobs = []
    for key, lst in groups.items():
        # replay a few witnesses per group, from distinct cases first (a
        # witness that went through an uninterpreted function may not be
        # replayable; one reproducing witness is enough)
        seen_cases, pick = set(), []
        for item in lst:
            ck = json.dumps(item[1], sort_keys=True, default=str)
            if ck not in seen_cases:
                seen_cases.add(ck)
                pick.append(item)
        pick = (pick + [x for x in lst if x not in pick])[:6]
        for h, case, f, sig in pick:
            j = Job(modname, h, case, 'replay', {'witness': f['witness']})
            j.meta = (key, f, sig)
            rjobs.append(j)
    violations = []
    known_hits = {}
    nonrepro = []
    rdone = run_jobs(rjobs)
    by_key = {}
    for j in rdone:
        by_key.setdefault(j.meta[0], []).append(j)
    for key, js in by_key.items():
        repro = None
        for j in js:
            r = j.result
            if r['status'] != 'ok':
                continue
            if r['failed'] or r['exceptions']:
                repro = (j, r)
                break
        if repro is None:
            if js and js[0].meta[1]['kind'] == 'nonfinite':
                # inf / NaN arose and the real code dealt with it
                if os.environ.get('VERIF_DEBUG'):
                    print('nonfinite dismissed:', js[0].meta[1]['witness'],
                          [j.result for j in js][:2], file=sys.stderr)
                continue
            nonrepro.append((key, [j.result for j in js]))
            continue
        validated += 1
        j, r = repro
        _, f, sig = j.meta
        kf = [k for k in known if k.get('status', 'known') == 'known'
              and sig is not None and k['signature'] == sig]
        if kf:
            known_hits[sig] = (kf[0], len(groups[key]))
        else:
            violations.append((j.h, j.case, f, sig, r, len(groups[key])))

    # ---- output
    exit_code = 0
    for sig, (k, n) in sorted(known_hits.items()):
        print(f"KNOWN-FINDING: property={prop} {k['signature']} — "
              f"{k['description']} ({n} paths)")
    if violations:
        exit_code = 1
        os.makedirs(os.path.join(VERIF, 'replays', prop), exist_ok=True)
        for i, (h, case, f, sig, r, n) in enumerate(violations):
            path = os.path.join(VERIF, 'replays', prop,
                                f"{h.name}-{i}.json")
            json.dump({'property': prop, 'harness': h.name, 'case': case,
                       'witness': f['witness'], 'kind': f['kind'],
                       'label': f['label'], 'signature': sig,
                       'observed_on_real_code': r, 'paths': n,
                       'replay_cmd': f"./check {prop} --replay {path}"},
                      open(path, 'w'), indent=1, default=str)
            print(f"VIOLATION property={prop} replay={path}")
            print(f"  harness={h.name} {f['kind']}: {f['label']} "
                  f"signature={sig} witness={json.dumps(f['witness'], default=str)[:400]}")
    if nonrepro:
        status = 'error'
        for key, rs in nonrepro:
            errors.append(f"finding {key} did not reproduce on the real "
                          f"code: {rs[:1]}")
    if exit_code == 0:
        if status == 'error':
            exit_code = 2
        elif status == 'inconclusive':
            exit_code = 3
    for e in errors:
        print(("HARNESS-ERROR: " if status == 'error' else "INCONCLUSIVE: ")
              + e[:3000], file=sys.stderr)

    wall = time.time() - t0
    st = total.as_dict()
    summary = {hn: {'cases': d['cases'], **d['stats'].as_dict(),
                    'outcomes': d['outcomes'], 'aborted_why': d['aborts'],
                    'cpu_s': round(d['wall_s'], 2)}
               for hn, d in per_h.items()}
    cases_cut = [{'harness': hn, 'case': json.loads(c),
                  'unexplored_prefixes': n}
                 for (hn, c), n in sorted(cut.items())]
    if cases_cut:
        print(f"PARTIAL: time box of {budget:.0f} s reached; "
              f"{len(cases_cut)} of the larger cases were not explored to "
              "the end (listed in the evidence); every quick-tier case "
              "was explored completely")
    print(f"{prop} tier={tier}: harnesses={len(harnesses)} "
          f"paths={st['paths']} obligations={st['obligations']} "
          f"discharged={st['discharged']} violated={st['violated']} "
          f"unknown={st['unknown']} queries={st['queries']} "
          f"solver_s={st['solver_s']:.1f} cvc5_recheck="
          f"{st['xagree']}/{st['xchecked']} wall_s={wall:.1f} "
          f"status={status} exit={exit_code}")
    for hn, d in summary.items():
        print(f"  {hn}: cases={d['cases']} paths={d['paths']} "
              f"oblig={d['obligations']}/{d['discharged']} "
              f"exc={d['exceptions']} q={d['queries']} "
              f"cpu={d['cpu_s']}s outcomes={d['outcomes']}")
    if not args.no_evidence and not args.only:
        ev = {
            'property_id': prop, 'tier': tier, 'seed': seed,
            'level': 'model_checking',
            'coverage': {
                'states': max(1, st['decisions'] + st['paths']),
                'transitions': max(1, st['decisions']),
                'traces_validated_against_impl': validated,
                'samples': samples[:12] or [{'note': 'no path sample'}],
                'paths': st['paths'], 'aborted_paths': st['aborted'],
                'obligations': st['obligations'],
                'discharged': st['discharged'],
                'violated': st['violated'], 'unknown': st['unknown'],
                'solver_queries': st['queries'],
                'solver_s': round(st['solver_s'], 2),
                'solver': 'z3 ' + _z3v(),
                'second_solver': {
                    'solver': 'cvc5 (python wheel), SMT-LIB text of the '
                              "query's cone of influence, "
                              f"{core.XCHECK['ms']} ms per query",
                    'sampled_one_in': core.XCHECK['every'],
                    'rechecked': st['xchecked'], 'agree': st['xagree'],
                    'cvc5_unknown_or_timeout': st['xunknown'],
                    'disagree': st['xdisagree']},
                'exhaustive': status == 'ok' and not cases_cut,
                'time_box': {'budget_s': budget,
                             'cases_not_explored_to_the_end': cases_cut[:60],
                             'n_cases_cut': len(cases_cut)},
                'status': status,
                'harnesses': {
                    h.name: {
                        'functions_encoded': h.funcs, 'stubs': h.stubs,
                        'bounds': h.bounds, 'outside_bounds': h.outside,
                        'cases': h.cases_for(tier)[:50],
                        **summary.get(h.name, {})}
                    for h in harnesses},
                'known_findings_hit': sorted(known_hits),
                'errors': errors[:10],
            },
            'assumptions': sorted({a for h in harnesses
                                   for a in h.assumptions}),
            'wall_s': round(wall, 2),
            'violations': len(violations),
        }
        os.makedirs(os.path.join(VERIF, 'evidence'), exist_ok=True)
        json.dump(ev, open(os.path.join(VERIF, 'evidence', f"{prop}.json"),
                           'w'), indent=1, default=str)
    return exit_code


def _z3v():
    import z3
    return z3.get_version_string()


def do_replay(mod, modname, path):
    rec = json.load(open(path))
    h = {x.name: x for x in mod.HARNESSES}[rec['harness']]
    j = Job(modname, h, rec['case'], 'replay', {'witness': rec['witness']})
    run_jobs([j])
    r = j.result
    print(json.dumps(r, indent=1, default=str))
    if r.get('failed') or r.get('exceptions'):
        print(f"VIOLATION property={rec['property']} replay={path}")
        return 1
    return 0


if __name__ == '__main__':
    sys.exit(main())
