"""numpy shim: rebinds `np` inside repository modules so that arrays which
may receive symbolic scalars are object arrays (class SArr) and the few
numpy entry points that do not work on object arrays of symx scalars are
supplied.  Everything else falls through to real numpy."""
import numpy as _np
import z3

from . import core
from .core import Sym, SInt, SReal, SBool, ShimGap


def _has_sym(a):
    if isinstance(a, Sym):
        return True
    if isinstance(a, _np.ndarray):
        return a.dtype == object and any(isinstance(x, Sym) for x in a.flat)
    if isinstance(a, (list, tuple)):
        return any(_has_sym(x) for x in a)
    return False


def _fixidx(k):
    """make an index usable by numpy: realise symbolic ints / bools"""
    if isinstance(k, tuple):
        return tuple(_fixidx(x) for x in k)
    if isinstance(k, _np.ndarray) and k.dtype == object:
        flat = list(k.flat)
        if len(flat) == 0:
            return _np.zeros(k.shape, dtype=_np.int64)
        if all(isinstance(x, (bool, _np.bool_, SBool)) for x in flat):
            return _np.array([bool(x) for x in flat],
                             dtype=bool).reshape(k.shape)
        return _np.array([int(x) for x in flat],
                         dtype=_np.int64).reshape(k.shape)
    if isinstance(k, (SInt, SBool)):
        return int(k)
    if isinstance(k, list) and _has_sym(k):
        return _fixidx(_np.array(k, dtype=object))
    if isinstance(k, slice):
        def f(v):
            return int(v) if isinstance(v, Sym) else v
        return slice(f(k.start), f(k.stop), f(k.step))
    return k


def _kind(dtype):
    if dtype is None:
        return 'f'
    try:
        return _np.dtype(dtype).kind
    except TypeError:
        return 'O'


import operator as _op


def _land(a, b):
    return core.And(a, b)


def _lor(a, b):
    return core.Or(a, b)


def _lnot(a):
    return core.Not(a)


_CMP = {_np.greater: _op.gt, _np.greater_equal: _op.ge, _np.less: _op.lt,
        _np.less_equal: _op.le, _np.equal: _op.eq, _np.not_equal: _op.ne,
        _np.logical_and: _land, _np.logical_or: _lor,
        _np.logical_not: _lnot}
_KEEP_DECL = set()
_INT_ARITH = {_np.multiply, _np.add, _np.subtract, _np.power}


def _int_result_type(inputs, wide_ok=False):
    """dtype numpy would compute in when every operand is an integer and
    at least one is an array of a declared integer type narrower than 64
    bits (any width with wide_ok: powers overflow 64 bits at realistic
    sizes, 2097152**3 > 2**63); None otherwise (floating point)"""
    typed = []
    for x in inputs:
        if isinstance(x, SArr):
            if x.decl is None or x.decl.kind not in 'iu':
                return None
            typed.append(x.decl)
        elif isinstance(x, _np.ndarray):
            if x.dtype == object:
                return None
            if x.dtype.kind not in 'iu':
                return None
            typed.append(x.dtype)
        elif isinstance(x, (bool, _np.bool_)):
            return None
        elif isinstance(x, _np.integer):
            typed.append(x.dtype)
        elif isinstance(x, int) or isinstance(x, SInt):
            continue                      # weak: adopts the array's type
        else:
            return None
    if not typed:
        return None
    dt = _np.result_type(*typed)
    if dt.kind not in 'iu' or (dt.itemsize >= 8 and not wide_ok):
        return None
    return dt


def _meta_dtype(decl):
    """object dtype that remembers the declared integer type: repository
    code that passes `x.dtype` on (np.sum(.., dtype=x.dtype),
    y.astype(x.dtype), np.zeros(n, dtype=x.dtype)) hands this object to
    the shim, which recovers the declared type from it"""
    return _np.dtype(object, metadata={'decl': str(_np.dtype(decl))})


def declared(dtype):
    """the declared type behind a dtype object made by _meta_dtype (any
    other dtype is returned unchanged)"""
    if isinstance(dtype, _np.dtype) and dtype.kind == 'O' and \
            dtype.metadata and 'decl' in dtype.metadata:
        return _np.dtype(dtype.metadata['decl'])
    return dtype


def tagged(a, decl):
    """`a` (an SArr) carrying `decl` both as attribute and in its dtype"""
    if decl is None or _np.dtype(decl).kind not in 'iu':
        a.decl = None if decl is None else _np.dtype(decl)
        return a
    a = a.view(_meta_dtype(decl))
    a.decl = _np.dtype(decl)
    return a


class SArr(_np.ndarray):
    """object ndarray holding symx scalars (and plain numbers)."""
    decl = None     # declared dtype (for no-wrap-around obligations)
    fkind = None    # 'f' when created by the shim as a floating array

    def __array_finalize__(self, obj):
        if obj is not None:
            self.decl = getattr(obj, 'decl', None)
            self.fkind = getattr(obj, 'fkind', None)

    def __getitem__(self, k):
        return super().__getitem__(_fixidx(k))

    def __array_ufunc__(self, ufunc, method, *inputs, **kwargs):
        # comparisons / logical ops on object arrays would call bool()
        # on every element (numpy picks the OO->? loop): build the
        # symbolic truth values instead of forking
        if method == '__call__' and ufunc in _CMP and not kwargs.get('out'):
            op = _CMP[ufunc]
            ins = [_np.asarray(x.view(_np.ndarray) if isinstance(x, SArr)
                               else x, dtype=object) for x in inputs]
            shape = _np.broadcast_shapes(*[i.shape for i in ins])
            ins = [_np.broadcast_to(i, shape) for i in ins]
            out = _np.empty(shape, dtype=object)
            anysym = False
            for idx in _np.ndindex(shape):
                r = op(*[i[idx] for i in ins])
                if isinstance(r, Sym):
                    anysym = True
                out[idx] = r
            if not anysym:
                out = out.astype(bool)
                return out if shape else bool(out[()])
            return out.view(SArr) if shape else out[()]
        ins = tuple(x.view(_np.ndarray) if isinstance(x, SArr) else x
                    for x in inputs)
        if 'out' in kwargs and kwargs['out'] is not None:
            kwargs['out'] = tuple(x.view(_np.ndarray)
                                  if isinstance(x, SArr) else x
                                  for x in kwargs['out'])
        r = getattr(ufunc, method)(*ins, **kwargs)
        if isinstance(r, _np.ndarray) and r.dtype == object \
                and not isinstance(r, SArr):
            r = r.view(_np.dtype(object)).view(SArr)
            r.decl = self.decl if ufunc in _KEEP_DECL else None
        if method == '__call__' and ufunc in _INT_ARITH and \
                isinstance(r, SArr):
            dt = _int_result_type(inputs, wide_ok=(ufunc is _np.power))
            if dt is not None:
                # arithmetic carried out in a narrow integer type (typed
                # integer arrays combined with Python ints, which numpy
                # treats as "weak"): the result has that type and must
                # fit it
                r = tagged(r, dt)
                if core.CUR is not None and core.CUR.mode == 'sym':
                    info = _np.iinfo(dt)
                    for x in r.flat:
                        if isinstance(x, Sym) and not isinstance(x, SBool):
                            core.CUR.check(
                                core.And(x >= int(info.min),
                                         x <= int(info.max)),
                                f"integer arithmetic ({ufunc.__name__}) "
                                f"stays within {dt}")
        return r

    def __setitem__(self, k, v):
        if core.CUR is not None and core.CUR.mode == 'sym':
            if self.decl is not None:
                _range_obligation(self.decl, v)
            if LOSSLESS['on'] and self.fkind == 'f' and \
                    isinstance(v, SArr) and v.decl is not None and \
                    v.decl.kind in 'iu' and v.decl.itemsize == 8:
                # 64-bit integers pushed through a float64 array keep
                # their value only up to 2**53
                for x in v.flat:
                    if isinstance(x, Sym) and not isinstance(x, SBool):
                        core.CUR.check(
                            core.And(x <= 2 ** 53, x >= -2 ** 53),
                            'value of a 64-bit integer dataset survives '
                            'its trip through a floating-point array')
        return super().__setitem__(_fixidx(k), v)

    def astype(self, dtype, *a, **k):
        via_meta = declared(dtype) is not dtype
        dtype = declared(dtype)
        kd = _kind(dtype)
        if kd == 'O':
            return self.copy()
        out = _np.empty(self.shape, dtype=object)
        for idx in _np.ndindex(self.shape):
            x = _np.ndarray.__getitem__(self, idx)
            out[idx] = _cast(x, kd)
        out = out.view(SArr)
        if kd in 'iu':
            dt = _np.dtype(dtype)
            if via_meta and dt.itemsize < 8 and core.CUR is not None \
                    and core.CUR.mode == 'sym':
                # "y.astype(x.dtype)" with x of a narrow integer type:
                # numpy wraps silently; the value must fit
                info = _np.iinfo(dt)
                for x in out.flat:
                    if isinstance(x, Sym) and not isinstance(x, SBool):
                        core.CUR.check(
                            core.And(x >= int(info.min),
                                     x <= int(info.max)),
                            f"value cast to {dt} (the type of another "
                            "array) fits that type")
            out = tagged(out, dt)
        return out

    def __bool__(self):
        if self.size == 1:
            return bool(self.flat[0])
        return super().__bool__()

    def round(self, decimals=0, out=None):
        return _map(self, lambda x: x.rint() if isinstance(x, Sym)
                    else _np.round(x))

    def sum(self, axis=None, **k):
        r = _np.ndarray.sum(self, axis=axis, **k)
        return r

    def tolist(self):
        return _np.ndarray.tolist(self)

    @property
    def dtype_decl(self):
        return self.decl


def _cast(x, kd):
    if isinstance(x, Sym):
        if kd in 'iu':
            return x.astype(int)
        if kd == 'f':
            return x.astype(float)
        if kd == 'b':
            return x.astype(bool)
        return x
    if kd in 'iu':
        return int(x)
    if kd == 'f':
        return float(x)
    if kd == 'b':
        return bool(x)
    return x


def _map(a, f):
    a = _np.asarray(a, dtype=object)
    out = _np.empty(a.shape, dtype=object)
    for idx in _np.ndindex(a.shape):
        out[idx] = f(a[idx])
    return out.view(SArr)


RANGE_CHECK = {'on': False}
LOSSLESS = {'on': False}


def _range_obligation(dt, v):
    if not RANGE_CHECK['on'] or dt.kind not in 'iu':
        return
    info = _np.iinfo(dt)
    vals = v.flat if isinstance(v, _np.ndarray) else [v]
    for x in vals:
        if isinstance(x, SBool):
            continue
        if isinstance(x, Sym):
            core.CUR.check(core.And(x >= int(info.min), x <= int(info.max)),
                           f"no wrap-around storing into {dt}")
        elif isinstance(x, (int, _np.integer)) and not isinstance(x, bool):
            if not (int(info.min) <= int(x) <= int(info.max)):
                core.CUR.check(False, f"no wrap-around storing into {dt}")


def sarr(obj, decl=None):
    """build an SArr from (nested) lists / arrays"""
    if isinstance(obj, _np.ndarray):
        a = obj.astype(object) if obj.dtype != object else obj
    else:
        a = _np.array(obj, dtype=object)
        if isinstance(obj, (list, tuple)) and len(obj) == 0:
            a = _np.empty((0,), dtype=object)
    a = a.view(SArr)
    return tagged(a, decl)


class RngModel:
    """np.random.Generator model: draws are symbolic, logged"""

    def __init__(self, seed=None, tag='rng'):
        self.seed = seed
        self.tag = tag
        self.draws = []
        self.choices = []

    def integers(self, lo, hi=None, size=None, **k):
        if hi is None:
            lo, hi = 0, lo
        if size is not None:
            raise ShimGap('rng.integers with size')
        v = core.CUR.int(f"{self.tag}.int{len(self.draws)}", lo, hi - 1)
        self.draws.append(v)
        return v

    def choice(self, a, size=None, replace=True, **k):
        if replace or size is None:
            raise ShimGap('rng.choice with replacement')
        a = list(_np.asarray(a))
        n = int(size)
        if n > len(a):
            raise ValueError("Cannot take a larger sample than population "
                             "when replace is False")
        # symbolic duplicate-free ordered sample
        rest = list(a)
        out = []
        tag = f"{self.tag}.choice{len(self.choices)}"
        for i in range(n):
            k_ = core.CUR.choice(f"{tag}.{i}", len(rest))
            out.append(rest.pop(k_))
        self.choices.append(list(out))
        return _np.array(out, dtype=_np.int64)

    def shuffle(self, x):
        p = core.CUR.perm(f"{self.tag}.shuffle{len(self.choices)}", len(x))
        self.choices.append(p)
        x[:] = [x[i] for i in p]

    def random(self, *a, **k):
        raise ShimGap('rng.random')

    def spawn(self, n):
        """child generators (np.random.Generator.spawn): independent
        streams identified by (parent, index)"""
        kids = [RngModel(('spawned', self.seed, i), tag=f"{self.tag}.s{i}")
                for i in range(int(n))]
        self.spawned = getattr(self, 'spawned', []) + kids
        return kids


class _Random:
    def __init__(self, shim):
        self.shim = shim

    def default_rng(self, seed=None):
        r = RngModel(seed, tag=f"rng{len(self.shim.rngs)}")
        self.shim.rngs.append(r)
        return r

    def __getattr__(self, name):
        return getattr(_np.random, name)


class NpShim:
    """stands in for the numpy module inside a repository module"""

    def __init__(self, force_object=True):
        self.random = _Random(self)
        self.rngs = []
        self.force_object = force_object

    def __getattr__(self, name):
        return getattr(_np, name)

    # ---- creation: object dtype so that symbolic stores are possible
    def _new(self, shape, fillv, dtype):
        dtype = declared(dtype)
        if isinstance(shape, Sym):
            shape = int(shape)
        elif isinstance(shape, (tuple, list)):
            shape = tuple(int(s) for s in shape)
        kd = _kind(dtype)
        if kd in 'SUO' and dtype is not None and kd != 'O':
            return None
        a = _np.empty(shape, dtype=object)
        a.fill(_cast(fillv, kd) if kd in 'iufb' else fillv)
        a = a.view(SArr)
        a = tagged(a, _np.dtype(dtype) if kd in 'iu' else None)
        a.fkind = 'f' if kd == 'f' else None
        return a

    def zeros(self, shape, dtype=float, **k):
        r = self._new(shape, 0, dtype)
        return r if r is not None else _np.zeros(shape, dtype=dtype, **k)

    def ones(self, shape, dtype=float, **k):
        r = self._new(shape, 1, dtype)
        return r if r is not None else _np.ones(shape, dtype=dtype, **k)

    def empty(self, shape, dtype=float, **k):
        r = self._new(shape, 0, dtype)
        return r if r is not None else _np.empty(shape, dtype=dtype, **k)

    def full(self, shape, fill_value, dtype=None, **k):
        if dtype is None:
            dtype = float if isinstance(fill_value, (float, SReal)) else int
        return self._new(shape, fill_value, dtype)

    def zeros_like(self, a, dtype=None, **k):
        return self.zeros(_np.shape(a), dtype=dtype or getattr(
            a, 'decl', None) or (float if _np.asarray(a).dtype == object
                                 else _np.asarray(a).dtype))

    def ones_like(self, a, dtype=None, **k):
        return self.ones(_np.shape(a), dtype=dtype or (
            float if _np.asarray(a).dtype == object
            else _np.asarray(a).dtype))

    def array(self, obj, dtype=None, **k):
        if isinstance(obj, _np.ndarray) and obj.dtype == object \
                and _has_sym(obj):
            return obj.copy().view(SArr) if dtype is None \
                else obj.view(SArr).astype(dtype)
        if _has_sym(obj):
            a = _np.array(obj, dtype=object).view(SArr)
            return a if dtype is None else a.astype(dtype)
        return _np.array(obj, dtype=dtype, **k)

    def asarray(self, obj, dtype=None, **k):
        if isinstance(obj, SArr):
            return obj if dtype is None else obj.astype(dtype)
        return self.array(obj, dtype=dtype, **k)

    def copy(self, a, **k):
        # a copy may later be indexed / assigned with symbolic values:
        # hand out an object array (SArr) so that this stays possible
        if isinstance(a, _np.ndarray) and not isinstance(a, SArr) \
                and a.dtype.kind in 'biuf':
            r = a.astype(object).view(SArr)
            r = tagged(r, a.dtype if a.dtype.kind in 'iu' else None)
            return r
        return _np.copy(a, subok=True)

    def arange(self, *a, **k):
        a = [int(x) if isinstance(x, Sym) else x for x in a]
        return _np.arange(*a, **k)

    # ---- elementwise
    def sum(self, a, axis=None, dtype=None, **k):
        """np.sum; an accumulator of a narrow integer type wraps.
        `dtype=a.dtype` on an array read from a typed integer dataset
        means that declared type (the object dtype of the stand-in array
        is not what the real array has)"""
        decl = getattr(a, 'decl', None)
        if dtype is not None:
            dtype = declared(dtype)
        if dtype is not None and _np.dtype(dtype) == object and \
                decl is not None:
            dtype = decl
        if not (isinstance(a, _np.ndarray) and a.dtype == object):
            if dtype is None:
                return _np.sum(a, axis=axis, **k)
            return _np.sum(a, axis=axis, dtype=dtype, **k)
        base = a.view(_np.ndarray)
        r = _np.sum(base, axis=axis, **k)
        if dtype is None or _np.dtype(dtype).kind not in 'iu' \
                or _np.dtype(dtype).itemsize >= 8:
            return r.view(SArr) if isinstance(r, _np.ndarray) else r
        dt = _np.dtype(dtype)
        info = _np.iinfo(dt)
        lo, span = int(info.min), 2 ** (8 * dt.itemsize)
        if axis is None:
            n = int(a.size)
        elif isinstance(axis, tuple):
            n = 1
            for ax in axis:
                n *= int(a.shape[ax])
        else:
            n = int(a.shape[axis])

        def wrap(x):
            if not isinstance(x, Sym):
                return (int(x) - lo) % span + lo
            # every term lies in the range of dt (it came out of a
            # dataset of that type), so |sum - lo| < (n + 1) * span
            isint = isinstance(x, SInt)
            e = (x.e if isint else core._toreal(x.e)) - lo
            one = z3.IntVal(1) if isint else z3.RealVal(1)
            zero = z3.IntVal(0) if isint else z3.RealVal(0)
            q = z3.Sum([z3.If(e >= span * j, one, zero)
                        for j in range(1, n + 1)]
                       + [z3.If(e < -span * j, -one, zero)
                          for j in range(0, n)])
            return core._wrap((x.e if isint else core._toreal(x.e))
                              - span * q)
        if isinstance(r, _np.ndarray):
            out = _np.empty(r.shape, dtype=object)
            for idx in _np.ndindex(r.shape):
                out[idx] = wrap(r[idx])
            out = out.view(SArr)
            return tagged(out, dt)
        return wrap(r)

    def einsum(self, subscripts, *operands, **k):
        """np.einsum keeps the dtype of its operands: a reduction over an
        array of a narrow integer type wraps like np.sum(dtype=that type)"""
        if len(operands) == 1 and isinstance(operands[0], SArr) and \
                '->' in str(subscripts) and not k:
            a = operands[0]
            ins, out = str(subscripts).replace(' ', '').split('->')
            if len(ins) == a.ndim and len(set(ins)) == len(ins) and \
                    set(out) <= set(ins) and \
                    list(out) == [c for c in ins if c in out]:
                axes = tuple(i for i, c in enumerate(ins) if c not in out)
                decl = getattr(a, 'decl', None)
                if axes:
                    return self.sum(a, axis=axes if len(axes) > 1
                                    else axes[0], dtype=decl)
        return _np.einsum(subscripts, *operands, **k)

    def where(self, *args):
        if len(args) == 3:
            c, a, b = args
            c = _np.asarray(c)
            if c.dtype == object or _has_sym(a) or _has_sym(b):
                shape = _np.broadcast_shapes(c.shape, _np.shape(a),
                                             _np.shape(b))
                c = _np.broadcast_to(c.astype(object), shape)
                a = _np.broadcast_to(_np.asarray(a, dtype=object), shape)
                b = _np.broadcast_to(_np.asarray(b, dtype=object), shape)
                out = _np.empty(shape, dtype=object)
                for idx in _np.ndindex(shape):
                    ci = c[idx]
                    if isinstance(ci, SBool):
                        x, y = core._coerce(a[idx], b[idx])
                        out[idx] = core._wrap(z3.If(ci.e, x, y))
                    else:
                        out[idx] = a[idx] if ci else b[idx]
                return out.view(SArr)
            return _np.where(*args)
        c = _np.asarray(args[0])
        if c.dtype == object:
            c = _fixidx(c)
        return _np.where(c)

    def round(self, x, decimals=0, **k):
        if isinstance(x, Sym):
            return x.rint()
        if _has_sym(x):
            return _map(x, lambda v: v.rint() if isinstance(v, Sym)
                        else _np.round(v))
        return _np.round(x, decimals, **k)
    around = round

    def rint(self, x, **k):
        return self.round(x)

    def ceil(self, x, **k):
        if isinstance(x, Sym):
            return x.ceil()
        if _has_sym(x):
            return _map(x, lambda v: v.ceil() if isinstance(v, Sym)
                        else _np.ceil(v))
        return _np.ceil(x, **k)

    def floor(self, x, **k):
        if isinstance(x, Sym):
            return x.floor()
        if _has_sym(x):
            return _map(x, lambda v: v.floor() if isinstance(v, Sym)
                        else _np.floor(v))
        return _np.floor(x, **k)

    def _un(self, name, x, **k):
        if isinstance(x, Sym):
            return getattr(x, name)()
        if isinstance(x, _np.ndarray) and x.dtype == object:
            return _map(x, lambda v: getattr(v, name)() if isinstance(v, Sym)
                        else getattr(_np, name)(v))
        return getattr(_np, name)(x, **k)

    def sqrt(self, x, **k): return self._un('sqrt', x, **k)
    def log2(self, x, **k): return self._un('log2', x, **k)
    def log(self, x, **k): return self._un('log', x, **k)
    def exp(self, x, **k): return self._un('exp', x, **k)

    def abs(self, x, **k):
        if isinstance(x, Sym):
            return abs(x)
        if isinstance(x, _np.ndarray) and x.dtype == object:
            return _map(x, abs)
        return _np.abs(x, **k)
    absolute = abs
    fabs = abs

    def isfinite(self, x, **k):
        if isinstance(x, Sym):
            return True
        if isinstance(x, _np.ndarray) and x.dtype == object:
            return _np.ones(x.shape, dtype=bool)
        return _np.isfinite(x, **k)

    def isnan(self, x, **k):
        if isinstance(x, Sym):
            return False
        if isinstance(x, _np.ndarray) and x.dtype == object:
            return _np.zeros(x.shape, dtype=bool)
        return _np.isnan(x, **k)

    def logical_not(self, x, **k):
        if isinstance(x, Sym):
            return ~x if isinstance(x, SBool) else SBool(x.e == 0)
        if isinstance(x, _np.ndarray) and x.dtype == object:
            return _map(x, lambda v: (~v if isinstance(v, SBool)
                                      else (not v)))
        return _np.logical_not(x, **k)

    def logical_and(self, a, b, **k):
        if _has_sym(a) or _has_sym(b):
            return self._binb(a, b, lambda x, y: core.And(x, y))
        return _np.logical_and(a, b, **k)

    def logical_or(self, a, b, **k):
        if _has_sym(a) or _has_sym(b):
            return self._binb(a, b, lambda x, y: core.Or(x, y))
        return _np.logical_or(a, b, **k)

    def _binb(self, a, b, f):
        a = _np.asarray(a, dtype=object)
        b = _np.asarray(b, dtype=object)
        shape = _np.broadcast_shapes(a.shape, b.shape)
        a = _np.broadcast_to(a, shape)
        b = _np.broadcast_to(b, shape)
        out = _np.empty(shape, dtype=object)
        for idx in _np.ndindex(shape):
            out[idx] = f(a[idx], b[idx])
        return out.view(SArr) if shape else out[()]

    @property
    def maximum(self):
        return _MAXIMUM

    @property
    def minimum(self):
        return _MINIMUM

    def any(self, a, *args, **k):
        return _np.any(a, *args, **k)

    def issubdtype(self, a, b):
        return _np.issubdtype(a, b)

    def allclose(self, a, b, **k):
        if _has_sym(a) or _has_sym(b):
            raise ShimGap('allclose on symbolic values')
        return _np.allclose(a, b, **k)

    def array_equal(self, a, b, **k):
        if _has_sym(a) or _has_sym(b):
            a = _np.asarray(a, dtype=object)
            b = _np.asarray(b, dtype=object)
            if a.shape != b.shape:
                return False
            for x, y in zip(a.flat, b.flat):
                if not bool(x == y):
                    return False
            return True
        return _np.array_equal(a, b, **k)


class _MinMax:
    """np.maximum / np.minimum on symbolic operands: If-terms, no fork"""

    def __init__(self, real, ge):
        self.real, self.ge = real, ge

    def _pick(self, x, y):
        if isinstance(x, Sym) or isinstance(y, Sym):
            x_, y_ = core._coerce(x, y)
            c = (x_ >= y_) if self.ge else (x_ <= y_)
            return core._wrap(z3.If(c, x_, y_))
        return self.real(x, y)

    def __call__(self, a, b, **k):
        if _has_sym(a) or _has_sym(b):
            a = _np.asarray(a, dtype=object)
            b = _np.asarray(b, dtype=object)
            shape = _np.broadcast_shapes(a.shape, b.shape)
            a = _np.broadcast_to(a, shape)
            b = _np.broadcast_to(b, shape)
            out = _np.empty(shape, dtype=object)
            for idx in _np.ndindex(shape):
                out[idx] = self._pick(a[idx], b[idx])
            return out.view(SArr) if shape else out[()]
        return self.real(a, b, **k)

    def accumulate(self, a, axis=0, **k):
        if _has_sym(a):
            a = _np.asarray(a, dtype=object)
            if a.ndim != 1:
                raise ShimGap('accumulate on nd symbolic array')
            out = _np.empty(a.shape, dtype=object)
            for i in range(len(a)):
                out[i] = a[i] if i == 0 else self._pick(a[i], out[i - 1])
            return out.view(SArr)
        return self.real.accumulate(a, axis=axis, **k)

    def reduce(self, a, axis=0, **k):
        if _has_sym(a):
            acc = self.accumulate(_np.asarray(a, dtype=object).ravel())
            return acc[-1]
        return self.real.reduce(a, axis=axis, **k)

    def __getattr__(self, n):
        return getattr(self.real, n)


_MAXIMUM = _MinMax(_np.maximum, True)
_MINIMUM = _MinMax(_np.minimum, False)


def max_(*a, **k):
    """builtin max that keeps symbolic operands symbolic (If-term) when
    called with exactly two scalar arguments"""
    if len(a) == 2 and not k and (isinstance(a[0], Sym)
                                  or isinstance(a[1], Sym)):
        x, y = core._coerce(a[0], a[1])
        return core._wrap(z3.If(x >= y, x, y))
    return max(*a, **k)


def min_(*a, **k):
    if len(a) == 2 and not k and (isinstance(a[0], Sym)
                                  or isinstance(a[1], Sym)):
        x, y = core._coerce(a[0], a[1])
        return core._wrap(z3.If(x <= y, x, y))
    return min(*a, **k)
