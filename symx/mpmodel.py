"""Model of multiprocessing for the dispatch loops of cell_type_mapper.

Process.start() does not run the target.  Reading .exitcode asks the
symbolic scheduler "has this worker finished by now?" (at most K "not
yet" answers per worker, so every completion order of up to K+1 workers
is reachable and every path terminates).  When a worker completes, the
real target runs inline at that point of the schedule, unless the fault
model picks - symbolically - an abnormal termination:

  ok        target runs, exit 0
  before    dies before doing anything           (exit 1, no effect)
  killed    killed by a signal before any effect  (exit -9)
  after     target runs completely, then exit 1   (all effects visible)
  raise_at  an exception is raised inside the target at its n-th
            instrumented step (effects up to that step), exit 1
  killed_at (opt-in per harness) the worker is killed by a signal at its
            n-th instrumented step: effects up to that step, exit -9

Worker bodies are atomic with respect to each other: that is the
granularity at which the real code synchronises (per-worker files, or a
lock around a single list +=)."""
from . import core

FAULT_MODES = ['ok', 'before', 'killed', 'after', 'raise_at']


class WorkerAbort(Exception):
    """injected failure inside a worker body"""


class WorkerKilled(BaseException):
    """injected kill inside a worker body (not an Exception: handlers in
    the worker body do not see it; its finally blocks do run, which a real
    SIGKILL would skip - effects of those blocks are therefore an
    under-approximation of what a kill leaves behind)"""


class Sched:
    procs_ever = False

    def __init__(self):
        self.tag = ''
        self.reset()
        self.procs_ever = False

    epoch = 0

    def reset(self, K=2, faults=False, fault_modes=None, max_faults=1,
              fault_steps=0):
        # several dispatches on one path (e.g. a run and its baseline):
        # keep the names of the scheduler's choices apart
        ctx = core.CUR
        n = getattr(ctx, '_mp_epoch', 0) if ctx is not None else 0
        self.tag = '' if n == 0 else f"e{n}:"
        if ctx is not None:
            ctx._mp_epoch = n + 1
        self.procs = []
        self.order = []          # completion order (indices)
        self.K = K
        self.faults = faults
        self.fault_modes = fault_modes or FAULT_MODES
        self.max_faults = max_faults
        self.n_faults = 0
        self.fault_steps = fault_steps
        self.outcome = {}        # idx -> mode
        self.step_budget = None  # active raise_at budget
        self.killing = False
        self.managers = 0
        self.started_before_seed = []


SCHED = Sched()


def step(label=''):
    """instrumented point inside worker bodies (called by harness
    wrappers around the environment: file open, result write)"""
    if SCHED.step_budget is None:
        return
    if SCHED.step_budget == 0:
        SCHED.step_budget = None
        if SCHED.killing:
            raise WorkerKilled(f"injected kill at step {label}")
        raise WorkerAbort(f"injected failure at step {label}")
    SCHED.step_budget -= 1


class Process:
    def __init__(self, target=None, args=(), kwargs=None, name=None,
                 daemon=None, group=None):
        self.target, self.args, self.kwargs = target, args, kwargs or {}
        self.state = 'new'
        self._code = None
        self.polls = 0
        self.idx = None
        self.name = name
        self.daemon = daemon
        self.pid = None

    def start(self):
        if self.state != 'new':
            raise AssertionError('cannot start a process twice')
        self.state = 'running'
        self.idx = len(SCHED.procs)
        self.pid = 1000 + self.idx
        SCHED.procs.append(self)

    def _complete(self):
        ctx = core.CUR
        mode = 'ok'
        if SCHED.faults and SCHED.n_faults < SCHED.max_faults:
            mode = SCHED.fault_modes[ctx.choice(f"{SCHED.tag}fault[{self.idx}]",
                                                len(SCHED.fault_modes))]
        if mode != 'ok':
            SCHED.n_faults += 1
        SCHED.outcome[self.idx] = mode
        if mode == 'ok':
            self._run()
            self._code = 0
        elif mode == 'before':
            self._code = 1
        elif mode == 'killed':
            self._code = -9
        elif mode == 'after':
            self._run()
            self._code = 1
        elif mode in ('raise_at', 'killed_at'):
            n = ctx.choice(f"{SCHED.tag}fault_step[{self.idx}]",
                           max(1, SCHED.fault_steps))
            SCHED.step_budget = n
            SCHED.killing = mode == 'killed_at'
            try:
                self._run()
            except (WorkerAbort, WorkerKilled):
                pass
            SCHED.step_budget = None
            SCHED.killing = False
            self._code = 1 if mode == 'raise_at' else -9
        self.state = 'done'
        SCHED.order.append(self.idx)

    def _run(self):
        try:
            self.target(*self.args, **self.kwargs)
        except WorkerAbort:
            raise
        except Exception as e:       # a worker that raises exits with 1
            SCHED.outcome[self.idx] = f"raised {type(e).__name__}: {e}"
            SCHED.step_budget = None
            self._code = 1
            self.state = 'done'
            raise WorkerAbort(str(e))

    @property
    def exitcode(self):
        if self.state == 'new':
            return None
        if self.state == 'done':
            return self._code
        self.polls += 1
        if self.polls > SCHED.K:
            fin = True
        else:
            fin = core.CUR.flag(f"{SCHED.tag}fin[{self.idx},{self.polls}]")
        if not fin:
            return None
        try:
            self._complete()
        except WorkerAbort:
            if self.state != 'done':
                self._code = 1
                self.state = 'done'
                SCHED.order.append(self.idx)
        return self._code

    @property
    def sentinel(self):
        return ('sentinel', self.idx)

    def is_alive(self):
        return self.state == 'running' and self.exitcode is None

    def join(self, timeout=None):
        while self.state == 'running' and self.exitcode is None:
            pass

    def terminate(self):
        if self.state == 'running':
            self.state = 'done'
            self._code = -15

    kill = terminate


class _Lock:
    def __enter__(self):
        return self

    def __exit__(self, *a):
        return False

    def acquire(self, *a, **k):
        return True

    def release(self):
        pass


class Manager:
    def __init__(self):
        SCHED.managers += 1

    def list(self, *a):
        return list(*a)

    def dict(self, *a, **k):
        return dict(*a, **k)

    def Lock(self):
        return _Lock()


class _Connection:
    """multiprocessing.connection: wait() on process sentinels blocks
    until at least one of them has finished - which one is the
    scheduler's choice"""

    @staticmethod
    def wait(object_list, timeout=None):
        procs = [p for p in SCHED.procs
                 if p.idx is not None and p.sentinel in list(object_list)]
        done = [p for p in procs if p.state == 'done']
        if done:
            return [p.sentinel for p in done]
        running = [p for p in procs if p.state == 'running']
        if not running:
            return []
        k = core.CUR.choice(f"{SCHED.tag}wait[{len(SCHED.order)}]",
                            len(running))
        p = running[k]
        p.polls = SCHED.K + 1           # finishes now
        p.exitcode
        return [p.sentinel]


class MPModule:
    Process = Process
    Manager = Manager
    Lock = _Lock
    connection = _Connection

    @staticmethod
    def cpu_count():
        return 4

    @staticmethod
    def set_start_method(*a, **k):
        pass

    @staticmethod
    def get_start_method(*a, **k):
        return 'spawn'

    def __getattr__(self, name):
        raise core.ShimGap(f"multiprocessing.{name} not modelled")


multiprocessing = MPModule()
