"""symx core: z3-backed symbolic scalars + fork-by-replay path explorer.

Symbolic scalars (SInt / SReal / SBool) wrap z3 Int / Real / Bool terms and
live inside ordinary numpy object arrays, so repository numpy code runs on
them unmodified.  Every Python-level branch on a symbolic value is a fork,
resolved with the solver and explored exhaustively by replay (DFS over
decision prefixes).

The same harness body is also run in *concrete* mode (ConcreteCtx) with the
real libraries: that is how counterexamples are replayed before they are
reported and how the shims are validated (differential self-test).
"""
import hashlib
import math
import numbers
import time
from fractions import Fraction

import z3

CUR = None          # the active context (SymCtx or ConcreteCtx)
NONFINITE = {'raise': False}   # division by zero: abort path or raise


class PathAbort(BaseException):
    """current path is infeasible / outside the claim; not a verdict"""
    def __init__(self, why='infeasible'):
        self.why = why


class ShimGap(BaseException):
    """the models cannot express what the code asked for => harness error"""


class Budget(BaseException):
    """path / time budget exhausted => inconclusive"""


class ReplayMismatch(BaseException):
    """replayed prefix met a different condition => harness error"""


# ---------------------------------------------------------------- lifting
def _lift(x):
    if isinstance(x, Sym):
        return x.e
    if isinstance(x, (bool,)):
        return z3.BoolVal(x)
    if isinstance(x, numbers.Integral):
        return z3.IntVal(int(x))
    if isinstance(x, Fraction):
        return z3.RealVal(f"{x.numerator}/{x.denominator}")
    if isinstance(x, numbers.Real):
        f = float(x)
        if math.isnan(f) or math.isinf(f):
            raise PathAbort('nonfinite constant')
        return z3.RealVal(repr(f))
    if hasattr(x, 'dtype') and getattr(x, 'shape', None) == ():
        return _lift(x.item())
    raise TypeError(f"cannot lift {type(x)}")


def _wrap(e):
    s = e.sort()
    if s == z3.BoolSort():
        return SBool(e)
    if s == z3.IntSort():
        return SInt(e)
    return SReal(e)


def _coerce(a, b):
    a, b = _lift(a), _lift(b)
    sa, sb = a.sort(), b.sort()
    if sa != sb:
        if sa == z3.BoolSort():
            a = z3.If(a, z3.IntVal(1), z3.IntVal(0))
            sa = a.sort()
        if sb == z3.BoolSort():
            b = z3.If(b, z3.IntVal(1), z3.IntVal(0))
            sb = b.sort()
        if sa != sb:
            if sa == z3.IntSort():
                a = z3.ToReal(a)
            if sb == z3.IntSort():
                b = z3.ToReal(b)
    return a, b


def _toreal(a):
    return z3.ToReal(a) if a.sort() == z3.IntSort() else a


def bexpr(c):
    """anything boolean-like -> z3 Bool term"""
    if isinstance(c, SBool):
        return c.e
    if isinstance(c, (bool,)) or type(c).__name__ == 'bool_' \
            or type(c).__name__ == 'bool':
        return z3.BoolVal(bool(c))
    if z3.is_expr(c):
        return c
    raise TypeError(f"not boolean: {type(c)}")


class Sym:
    __slots__ = ('e',)

    def __init__(self, e):
        self.e = e

    def __repr__(self):
        return f"<{z3.simplify(self.e)}>"

    def item(self):
        return self


class SBool(Sym):
    __slots__ = ()

    def __bool__(self):
        return CUR.branch(self.e)

    def __and__(self, o):
        try:
            return SBool(z3.And(self.e, bexpr(o)))
        except TypeError:
            return NotImplemented
    __rand__ = __and__

    def __or__(self, o):
        try:
            return SBool(z3.Or(self.e, bexpr(o)))
        except TypeError:
            return NotImplemented
    __ror__ = __or__

    def __xor__(self, o):
        try:
            return SBool(z3.Xor(self.e, bexpr(o)))
        except TypeError:
            return NotImplemented
    __rxor__ = __xor__

    def __invert__(self):
        return SBool(z3.Not(self.e))

    def logical_not(self):
        return SBool(z3.Not(self.e))

    def logical_and(self, o):
        return self & o

    def logical_or(self, o):
        return self | o

    def __eq__(self, o):
        try:
            return SBool(self.e == bexpr(o))
        except TypeError:
            return NotImplemented

    def __ne__(self, o):
        try:
            return SBool(self.e != bexpr(o))
        except TypeError:
            return NotImplemented
    __hash__ = None

    def _asint(self):
        return SInt(z3.If(self.e, z3.IntVal(1), z3.IntVal(0)))

    def __add__(self, o):
        return self._asint() + o
    __radd__ = __add__

    def __mul__(self, o):
        return self._asint() * o
    __rmul__ = __mul__

    def __int__(self):
        return 1 if bool(self) else 0
    __index__ = __int__

    def __sub__(self, o): return self._asint() - o
    def __rsub__(self, o): return o - self._asint()
    def __neg__(self): return -self._asint()
    def __lt__(self, o): return self._asint() < o
    def __le__(self, o): return self._asint() <= o
    def __gt__(self, o): return self._asint() > o
    def __ge__(self, o): return self._asint() >= o

    def astype(self, dtype, *a, **k):
        if dtype in (bool,):
            return self
        return self._asint().astype(dtype)


def _pyfloordiv(a, b):
    return z3.If(b > 0, a / b, (-a) / (-b))


def _pymod(a, b):
    return z3.If(b > 0, a % b, -((-a) % (-b)))


class SNum(Sym):
    __slots__ = ()

    def _bin(self, o, f, r=False):
        try:
            a, b = _coerce(self, o)
        except TypeError:
            return NotImplemented
        if r:
            a, b = b, a
        return _wrap(f(a, b))

    def __add__(self, o): return self._bin(o, lambda a, b: a + b)
    def __radd__(self, o): return self._bin(o, lambda a, b: a + b, True)
    def __sub__(self, o): return self._bin(o, lambda a, b: a - b)
    def __rsub__(self, o): return self._bin(o, lambda a, b: a - b, True)
    def __mul__(self, o): return self._bin(o, lambda a, b: a * b)
    def __rmul__(self, o): return self._bin(o, lambda a, b: a * b, True)
    def __neg__(self): return _wrap(-self.e)
    def __pos__(self): return self

    def __abs__(self):
        return _wrap(z3.If(self.e >= 0, self.e, -self.e))

    def _div(self, o, r=False):
        try:
            a, b = _coerce(self, o)
        except TypeError:
            return NotImplemented
        if r:
            a, b = b, a
        return CUR.divide(_toreal(a), _toreal(b))

    def __truediv__(self, o): return self._div(o)
    def __rtruediv__(self, o): return self._div(o, True)

    def _fdiv(self, o, r=False):
        try:
            a, b = _coerce(self, o)
        except TypeError:
            return NotImplemented
        if r:
            a, b = b, a
        if a.sort() != z3.IntSort():
            q = CUR.divide(a, b)
            return SReal(z3.ToReal(z3.ToInt(q.e)))
        CUR.nonzero(b)
        return SInt(_pyfloordiv(a, b))

    def __floordiv__(self, o): return self._fdiv(o)
    def __rfloordiv__(self, o): return self._fdiv(o, True)

    def _mod(self, o, r=False):
        try:
            a, b = _coerce(self, o)
        except TypeError:
            return NotImplemented
        if r:
            a, b = b, a
        if a.sort() != z3.IntSort():
            raise ShimGap('real modulo')
        CUR.nonzero(b)
        return SInt(_pymod(a, b))

    def __mod__(self, o): return self._mod(o)
    def __rmod__(self, o): return self._mod(o, True)

    def __pow__(self, o):
        if isinstance(o, Sym):
            raise ShimGap('symbolic exponent')
        if o == 2:
            return _wrap(self.e * self.e)
        if o == 1:
            return self
        if o == 0.5:
            return self.sqrt()
        if isinstance(o, numbers.Integral) and 0 <= o <= 4:
            r = z3.IntVal(1) if self.e.sort() == z3.IntSort() \
                else z3.RealVal(1)
            for _ in range(int(o)):
                r = r * self.e
            return _wrap(r)
        raise ShimGap(f'power {o}')

    def __rpow__(self, o):
        raise ShimGap('symbolic exponent')

    def __lt__(self, o): return self._bin(o, lambda a, b: a < b)
    def __le__(self, o): return self._bin(o, lambda a, b: a <= b)
    def __gt__(self, o): return self._bin(o, lambda a, b: a > b)
    def __ge__(self, o): return self._bin(o, lambda a, b: a >= b)
    def __eq__(self, o): return self._bin(o, lambda a, b: a == b)
    def __ne__(self, o): return self._bin(o, lambda a, b: a != b)
    __hash__ = None

    def __bool__(self):
        return CUR.branch(self.e != 0)

    # numpy object-array unary ufuncs call a method of the same name
    def rint(self):
        x = self.e
        if x.sort() == z3.IntSort():
            return self
        r = z3.ToInt(x)
        fr = x - z3.ToReal(r)
        half = z3.RealVal('1/2')
        ri = z3.If(fr < half, r,
                   z3.If(fr > half, r + 1,
                         z3.If(r % 2 == 0, r, r + 1)))
        return SReal(z3.ToReal(ri))

    def __round__(self, n=None):
        if n is not None:
            raise ShimGap('round with digits')
        return SInt(z3.ToInt(self.rint().e)) \
            if self.e.sort() != z3.IntSort() else self

    def ceil(self):
        x = self.e
        if x.sort() == z3.IntSort():
            return self
        r = z3.ToInt(x)
        return SReal(z3.ToReal(z3.If(z3.ToReal(r) == x, r, r + 1)))
    __ceil__ = ceil

    def floor(self):
        x = self.e
        if x.sort() == z3.IntSort():
            return self
        return SReal(z3.ToReal(z3.ToInt(x)))
    __floor__ = floor

    def sqrt(self):
        return CUR.sqrt(_toreal(self.e))

    def log2(self):
        return CUR.ufn('log2', _toreal(self.e))

    def log(self):
        return CUR.ufn('log', _toreal(self.e))

    def exp(self):
        return CUR.ufn('exp', _toreal(self.e))

    def isfinite(self):
        return True

    def isnan(self):
        return False

    def conjugate(self):
        return self

    def astype(self, dtype, *a, **k):
        import numpy as _np
        isint = self.e.sort() == z3.IntSort()
        try:
            kind = _np.dtype(dtype).kind
        except TypeError:
            kind = 'O'
        if kind in 'iu':
            if isint:
                return self
            t = z3.ToInt(self.e)
            return SInt(z3.If(self.e >= 0, t, -z3.ToInt(-self.e)))
        if kind == 'f':
            return SReal(z3.ToReal(self.e)) if isint else self
        if kind == 'b':
            return SBool(self.e != 0)
        return self


class SInt(SNum):
    __slots__ = ()

    def __index__(self):
        return CUR.realize_int(self.e)
    __int__ = __index__

    def __float__(self):
        raise ShimGap('float() of symbolic int')

    def __hash__(self):
        return hash(CUR.realize_int(self.e))

    def __str__(self):
        return str(CUR.realize_int(self.e)) if CUR is not None \
            else repr(self)

    def __format__(self, spec):
        return format(CUR.realize_int(self.e), spec)

    def __lshift__(self, o):
        if isinstance(o, int):
            return SInt(self.e * (1 << o))
        return NotImplemented


class SReal(SNum):
    __slots__ = ()

    def __int__(self):
        t = z3.ToInt(self.e)
        return CUR.realize_int(z3.If(self.e >= 0, t, -z3.ToInt(-self.e)))

    def __index__(self):
        raise TypeError('symbolic real used as index')

    def __float__(self):
        raise ShimGap('float() of symbolic real (value would be '
                      'concretised)')


def is_sym(x):
    return isinstance(x, Sym)


def term(x):
    """z3 term of a value (symbolic or concrete)"""
    return _lift(x)


def same_term(a, b):
    """syntactic identity of two values (after z3 simplification)"""
    ta, tb = z3.simplify(_lift(a)), z3.simplify(_lift(b))
    if ta.sort() != tb.sort():
        ta, tb = _coerce(_wrap(ta), _wrap(tb))
        ta, tb = z3.simplify(ta), z3.simplify(tb)
    return ta.eq(tb)


# ---------------------------------------------------------------- context
# every n-th discharged obligation of a process is re-decided by cvc5
XCHECK = {'every': 0, 'n': 0, 'ms': 2000}


def escaped_from_repo(exc):
    """name of the repository function an exception was raised in, or
    None if it was raised elsewhere (harness, shim, library called by the
    harness)"""
    import traceback
    tb = traceback.extract_tb(exc.__traceback__)
    if not tb:
        return None
    last = tb[-1]
    for fr in reversed(tb):
        if '/symx/' in fr.filename or '/harness/' in fr.filename:
            return None
        if '/cell_type_mapper/' in fr.filename:
            return f"{fr.filename.split('/cell_type_mapper/')[-1]}:" \
                   f"{fr.name}"
    return None


class Stats:
    FIELDS = ('paths', 'aborted', 'decisions', 'forks', 'queries',
              'solver_s', 'obligations', 'discharged', 'violated',
              'unknown', 'realizations', 'exceptions',
              'xchecked', 'xagree', 'xunknown', 'xdisagree')

    def __init__(self):
        for f in self.FIELDS:
            setattr(self, f, 0)
        self.solver_s = 0.0

    def as_dict(self):
        return {f: getattr(self, f) for f in self.FIELDS}

    def add(self, d):
        for f in self.FIELDS:
            setattr(self, f, getattr(self, f) + d.get(f, 0))


class SymCtx:
    """Symbolic execution context + DFS-by-replay explorer."""
    mode = 'sym'

    def __init__(self, max_paths=200000, max_s=3600.0, query_timeout_ms=20000):
        self.solver = z3.Solver()
        self.query_timeout_ms = query_timeout_ms
        self.fast_ms = 1500
        self.prefer_fresh = False
        self.stats = Stats()
        self.max_paths = max_paths
        self.max_s = max_s
        self.findings = []      # counterexamples / unexpected exceptions
        self.reached = {}       # label -> count
        self.samples = []       # path witnesses
        self.outcomes = {}      # label -> count
        self.abort_reasons = {}
        self.inputs = []        # (name, term) declared on this path
        self._ufn = {}
        self.unknown_labels = []

    # ---- solver plumbing
    def _check(self, *extra):
        t = time.time()
        self.stats.queries += 1
        if self.prefer_fresh:
            r = z3.unknown
        else:
            self.solver.set('timeout', self.fast_ms)
            r = self.solver.check(*extra)
            self._msolver = self.solver
        if r == z3.unknown:
            self.prefer_fresh = True
            # the incremental core is weak on non-linear arithmetic:
            # retry from scratch (non-incremental => nlsat), on the cone
            # of influence of the query only (unrelated constraints --
            # in particular integer choice variables, which would turn a
            # pure real problem into mixed integer/real non-linear
            # arithmetic -- are left out; they are satisfiable on their
            # own because the path is feasible)
            self.stats.fresh_retries = getattr(
                self.stats, 'fresh_retries', 0) + 1
            allc = list(self.solver.assertions())
            if extra:
                core_, rest = self._slice(allc, extra)
            else:
                core_, rest = allc, []
            f = z3.Solver()
            f.set('timeout', self.query_timeout_ms)
            f.add(core_)
            f.add(*extra)
            r = f.check()
            self._msolver = f
            if r == z3.sat and rest:
                # complete the model: fix the slice's variables and
                # solve the (independent) rest
                m = f.model()
                g = z3.Solver()
                g.set('timeout', self.query_timeout_ms)
                g.add(allc)
                g.add(*extra)
                for d in m.decls():
                    if d.arity() == 0:
                        g.add(d() == m[d])
                r2 = g.check()
                if r2 == z3.sat:
                    self._msolver = g
                elif r2 == z3.unknown:
                    r = z3.unknown
                else:
                    # cannot happen for an independent rest; be safe
                    r = z3.unknown
        self.stats.solver_s += time.time() - t
        return r

    _VARS = {}

    @classmethod
    def _vars(cls, e):
        k = e.get_id()
        hit = cls._VARS.get(k)
        if hit is not None and hit[0].eq(e):
            return hit[1]
        out = set()
        seen = set()
        stack = [e]
        while stack:
            t = stack.pop()
            i = t.get_id()
            if i in seen:
                continue
            seen.add(i)
            if z3.is_app(t):
                d = t.decl()
                if d.kind() == z3.Z3_OP_UNINTERPRETED:
                    out.add(d.name())
                stack.extend(t.children())
        if len(cls._VARS) > 200000:
            cls._VARS.clear()
        cls._VARS[k] = (e, out)
        return out

    def _slice(self, assertions, extra):
        want = set()
        for x in extra:
            want |= self._vars(x)
        if not want:
            return assertions, []
        av = [(a, self._vars(a)) for a in assertions]
        chosen = [False] * len(av)
        changed = True
        while changed:
            changed = False
            for i, (a, vs) in enumerate(av):
                if not chosen[i] and (vs & want):
                    chosen[i] = True
                    if not vs <= want:
                        want |= vs
                        changed = True
        core_ = [a for (a, _), c in zip(av, chosen) if c]
        rest = [a for (a, vs), c in zip(av, chosen) if not c and vs]
        return core_, rest

    def _model(self):
        return self._msolver.model()

    def _add(self, c):
        self.solver.add(c)
        if self.model is not None:
            try:
                v = self.model.eval(c, model_completion=True)
                if not z3.is_true(v):
                    self.model = None
            except z3.Z3Exception:
                self.model = None

    def _sat(self, c):
        """is path ∧ c satisfiable?  (True/False/None, model-or-None)"""
        if self.model is not None:
            try:
                if z3.is_true(self.model.eval(c, model_completion=True)):
                    return True, self.model
            except z3.Z3Exception:
                pass
        r = self._check(c)
        if r == z3.sat:
            return True, self._model()
        if r == z3.unsat:
            return False, None
        return None, None

    # ---- exploration
    def explore(self, fn, seeds=None, stop_when_frontier=None,
                yield_after=None, deadline=None):
        """run fn(self) on every feasible path.  Returns the list of
        unexplored prefixes (non-empty only with stop_when_frontier, or
        when yield_after paths have been explored: the caller re-queues
        the rest, which balances the load between worker processes)."""
        global CUR
        t0 = time.time()
        work = list(seeds) if seeds is not None else [[]]
        bfs = stop_when_frontier is not None
        n0 = self.stats.paths
        while work:
            if bfs and len(work) >= stop_when_frontier:
                return work
            if yield_after is not None and \
                    self.stats.paths - n0 >= yield_after:
                return work
            if deadline is not None and time.time() > deadline and \
                    self.stats.paths > n0:
                # time box of the thorough tier: hand the rest back
                return work
            if self.stats.paths >= self.max_paths or \
                    time.time() - t0 > self.max_s:
                raise Budget(f"{self.stats.paths} paths, "
                             f"{time.time()-t0:.0f}s")
            prefix = work.pop(0) if bfs else work.pop()
            self._begin(prefix)
            CUR = self
            try:
                try:
                    label = fn(self)
                    self._end_path(label)
                except PathAbort as a:
                    self.stats.aborted += 1
                    self.abort_reasons[a.why] = \
                        self.abort_reasons.get(a.why, 0) + 1
                except (ShimGap, ReplayMismatch, Budget):
                    raise
                except Exception as e:
                    # safety net: an exception raised inside repository
                    # code that the harness body did not expect is a
                    # finding on this path (replayed like any other), not
                    # a crash of the harness
                    where = escaped_from_repo(e)
                    if where is None:
                        raise
                    self.exception(e, f"{type(e).__name__}: "
                                   f"{str(e)[:120]} (raised in {where})")
                    self._end_path('EXC ' + type(e).__name__)
            finally:
                CUR = None
            self.stats.paths += 1
            work.extend(self.pending)
        return []

    def _begin(self, prefix):
        self.prefix = prefix
        self.pos = 0
        self.trace = []
        self.pending = []
        self.solver.reset()
        self.model = None
        self._side_model = None
        self.inputs = []
        self._fresh = 0
        self._names = set()
        self.path_unknown = False
        self._mp_epoch = 0
        self._memo = {}
        self.path_obligations = []
        self.notes = {}

    def _end_path(self, label):
        label = str(label)
        self.outcomes[label] = self.outcomes.get(label, 0) + 1
        if len(self.samples) < 3 or (self.path_obligations and
                                     len(self.samples) < 6 and
                                     not any(s['obligations']
                                             for s in self.samples)):
            w = self.witness()
            self.samples.append({
                'inputs': w, 'decisions': len(self.trace),
                'outcome': label,
                'obligations': list(self.path_obligations)[:12]})

    @staticmethod
    def _h(cond):
        return hashlib.md5(cond.sexpr().encode()).hexdigest()[:8]

    def branch(self, cond, aux=None, raw=None):
        # the decision hash is taken from the term as the program built
        # it: z3.simplify may order commutative arguments by AST id,
        # which depends on what earlier paths created
        raw = cond if raw is None else raw
        cond = z3.simplify(cond)
        if z3.is_true(cond):
            return True
        if z3.is_false(cond):
            return False
        self.stats.decisions += 1
        if self.pos < len(self.prefix):
            d, h, _ = self.prefix[self.pos]
            if h != self._h(raw):
                raise ReplayMismatch(
                    f"decision {self.pos}: expected {h}, met {cond}")
            self.pos += 1
            self._add(cond if d else z3.Not(cond))
            self.trace.append((d, h, aux))
            return d
        h = self._h(raw)
        can_t, m_t = self._sat(cond)
        can_f, m_f = self._sat(z3.Not(cond))
        self.pos += 1
        if can_t is None or can_f is None:
            self.path_unknown = True
        if can_t is not False and can_f is not False:
            self.stats.forks += 1
            self.pending.append(self.trace + [(False, h, aux)])
            d = True
        elif can_t is not False:
            d = True
        elif can_f is not False:
            d = False
        else:
            raise PathAbort('infeasible')
        self.solver.add(cond if d else z3.Not(cond))
        self.model = m_t if d else m_f
        self.trace.append((d, h, aux))
        self.prefix = self.trace
        return d

    def realize_int(self, e):
        raw_e = e
        e = z3.simplify(e)
        if z3.is_int_value(e):
            return e.as_long()
        self.stats.realizations += 1
        while True:
            if self.pos < len(self.prefix):
                v = self.prefix[self.pos][2]
                if v is None:
                    raise ReplayMismatch(
                        f"decision {self.pos}: expected realisation")
                if self.branch(e == v, aux=v, raw=(raw_e == v)):
                    return v
                continue
            if self.model is None:
                r = self._check()
                if r != z3.sat:
                    if r == z3.unknown:
                        raise Budget('unknown in realisation')
                    raise PathAbort('infeasible')
                self.model = self._model()
            v = self.model.eval(e, model_completion=True)
            # canonical value: the minimum
            while True:
                r = self._check(e < v)
                if r == z3.sat:
                    self.model = self._model()
                    v = self.model.eval(e, model_completion=True)
                elif r == z3.unsat:
                    break
                else:
                    raise Budget('unknown in realisation')
            v = v.as_long()
            if self.branch(e == v, aux=v, raw=(raw_e == v)):
                return v

    # ---- declaring inputs
    def _name(self, name):
        if name in self._names:
            raise ShimGap(f"duplicate input name {name}")
        self._names.add(name)
        return name

    def int(self, name, lo=None, hi=None):
        v = z3.Int(self._name(name))
        self.inputs.append((name, v))
        cs = []
        if lo is not None:
            cs.append(v >= _lift(lo))
        if hi is not None:
            cs.append(v <= _lift(hi))
        for c in cs:
            self._add(c)
        return SInt(v)

    def real(self, name, lo=None, hi=None, lo_strict=False, hi_strict=False):
        v = z3.Real(self._name(name))
        self.inputs.append((name, v))
        if lo is not None:
            self._add(v > _lift_real(lo) if lo_strict else v >= _lift_real(lo))
        if hi is not None:
            self._add(v < _lift_real(hi) if hi_strict else v <= _lift_real(hi))
        return SReal(v)

    def bool(self, name):
        v = z3.Bool(self._name(name))
        self.inputs.append((name, v))
        return SBool(v)

    def choice(self, name, n):
        """concrete index in range(n), chosen by the solver (fork)"""
        if n <= 0:
            raise PathAbort('empty choice')
        if n == 1:
            self.inputs.append((name, z3.IntVal(0)))
            return 0
        return int(self.int(name, 0, n - 1))

    def flag(self, name):
        """concrete bool chosen by the solver (fork)"""
        return bool(self.bool(name))

    def perm(self, name, n):
        """concrete permutation of range(n) (fork over all n!)"""
        rest = list(range(n))
        out = []
        for i in range(n):
            k = self.choice(f"{name}.{i}", len(rest))
            out.append(rest.pop(k))
        return out

    def subset(self, name, n):
        return [i for i in range(n) if self.flag(f"{name}.{i}")]

    def fresh_real(self, hint='r'):
        self._fresh += 1
        return z3.Real(f"_{hint}{self._fresh}")

    def fresh_int(self, hint='i'):
        self._fresh += 1
        return z3.Int(f"_{hint}{self._fresh}")

    # ---- arithmetic helpers needing side constraints
    def nonzero(self, b):
        if self.branch(b == 0):
            raise ZeroDivisionError('symbolic division by zero')

    def divide(self, a, b):
        b = z3.simplify(b)
        if z3.is_rational_value(b):
            if b.numerator_as_long() == 0:
                raise PathAbort('division by zero (nonfinite)')
            return SReal(a * z3.RealVal(
                f"{b.denominator_as_long()}/{b.numerator_as_long()}"))
        if self.branch(b == 0):
            if NONFINITE['raise']:
                raise ZeroDivisionError('division by zero: the real code '
                                        'would produce inf / NaN here')
            # a reachable x/0: reported (kind 'nonfinite') and confirmed
            # or dismissed by the replay on the real code - the code may
            # legitimately mask the inf / NaN afterwards, in which case no
            # obligation fails there and the path is simply outside the
            # real-number model
            if self._check() == z3.sat:     # model of *this* path
                self._finding('nonfinite', 'a division by zero is '
                              'reachable: the real code computes with '
                              'inf / NaN from here on', self._model())
            raise PathAbort('division by zero (nonfinite)')
        a = z3.simplify(a)
        key = ('div', a.get_id(), b.get_id())
        hit = self._memo.get(key)
        if hit is not None:
            return SReal(hit[0])
        d = self.fresh_real('q')
        self._memo[key] = (d, a, b)
        self._add(d * b == a)
        return SReal(d)

    def sqrt(self, x):
        x = z3.simplify(x)
        if z3.is_rational_value(x):
            f = Fraction(x.numerator_as_long(), x.denominator_as_long())
            if f < 0:
                raise PathAbort('sqrt of negative (nonfinite)')
            n, d = math.isqrt(f.numerator), math.isqrt(f.denominator)
            if n * n == f.numerator and d * d == f.denominator:
                return SReal(z3.RealVal(f"{n}/{d}"))
        elif self.branch(x < 0):
            if self._check() == z3.sat:
                self._finding('nonfinite', 'the square root of a negative '
                              'number is reachable: the real code computes '
                              'with NaN from here on', self._model())
            raise PathAbort('sqrt of negative (nonfinite)')
        key = ('sqrt', x.get_id())
        hit = self._memo.get(key)
        if hit is not None:
            return SReal(hit[0])
        s = self.fresh_real('s')
        self._memo[key] = (s, x)
        self._add(z3.And(s >= 0, s * s == x))
        return SReal(s)

    def ufn(self, name, x):
        f = self._ufn.get(name)
        if f is None:
            f = z3.Function(name, z3.RealSort(), z3.RealSort())
            self._ufn[name] = f
        return SReal(f(x))

    # ---- harness API
    def assume(self, c):
        c = bexpr(c)
        self._add(c)
        if self.model is None:
            r = self._check()
            if r == z3.unsat:
                raise PathAbort('assumption unsatisfiable')
            if r == z3.sat:
                self.model = self._model()
            else:
                self.path_unknown = True

    def reach(self, label):
        self.reached[label] = self.reached.get(label, 0) + 1

    def note(self, k, v):
        self.notes[k] = v

    def check(self, cond, label):
        """proof obligation on the current path"""
        self.stats.obligations += 1
        if isinstance(cond, (bool,)) or type(cond).__name__ in ('bool_',
                                                                  'bool'):
            ok = bool(cond)
            if ok:
                self.stats.discharged += 1
                self.path_obligations.append(label)
                return True
            self.stats.violated += 1
            self._finding('obligation', label, None)
            return False
        c = z3.simplify(bexpr(cond))
        if z3.is_true(c):
            self.stats.discharged += 1
            self.path_obligations.append(label)
            return True
        r = self._check(z3.Not(c))
        if r == z3.unsat:
            self.stats.discharged += 1
            self.path_obligations.append(label)
            XCHECK['n'] += 1
            if XCHECK['every'] and XCHECK['n'] % XCHECK['every'] == 0:
                self._xcheck(z3.Not(c), label)
            return True
        if r == z3.sat:
            self.stats.violated += 1
            self._finding('obligation', label, self._model())
            return False
        self.stats.unknown += 1
        self.unknown_labels.append(label)
        return None

    def _xcheck(self, negc, label):
        """second opinion on a discharged obligation: the same query (its
        cone of influence) is handed to cvc5 as SMT-LIB text.  `sat` from
        cvc5 where z3 said `unsat` makes the run inconclusive."""
        try:
            import cvc5
        except ImportError:
            return
        t = time.time()
        allc = list(self.solver.assertions())
        core_, _rest = self._slice(allc, [negc])
        f = z3.Solver()
        f.add(core_)
        f.add(negc)
        txt = f.to_smt2()
        res = 'unknown'
        try:
            slv = cvc5.Solver()
            slv.setOption('tlimit-per', str(XCHECK['ms']))
            slv.setLogic('ALL')
            ps = cvc5.InputParser(slv)
            ps.setStringInput(cvc5.InputLanguage.SMT_LIB_2_6, txt, 'q')
            sm = ps.getSymbolManager()
            while True:
                cmd = ps.nextCommand()
                if cmd.isNull():
                    break
                out = cmd.invoke(slv, sm).strip()
                if out in ('sat', 'unsat', 'unknown'):
                    res = out
                elif out:
                    res = 'unknown'     # (error ...) or anything else
        except Exception:
            res = 'unknown'
        self.stats.xchecked += 1
        if res == 'unsat':
            self.stats.xagree += 1
        elif res == 'sat':
            self.stats.xdisagree += 1
            self.stats.unknown += 1
            self.unknown_labels.append(
                f"SOLVER DISAGREEMENT (z3 unsat, cvc5 sat): {label}")
        else:
            self.stats.xunknown += 1
        self.stats.solver_s += time.time() - t

    def lemma(self, cond, label):
        """proof obligation that, once discharged, is added to the path
        as a fact (helps the solver on later non-linear queries)"""
        r = self.check(cond, label)
        if r is True and not isinstance(cond, bool):
            self._add(bexpr(cond))
        return r

    def exception(self, exc, label=None):
        """an exception of repository code the harness does not allow"""
        self.stats.exceptions += 1
        self._finding('exception',
                      label or f"{type(exc).__name__}: {str(exc)[:200]}",
                      None, exc=type(exc).__name__)

    def _finding(self, kind, label, model, exc=None):
        if len(self.findings) >= 200:
            return
        w = self.witness(model, generic=(model is None))
        if w is None:
            self.stats.unknown += 1
            self.unknown_labels.append(f"no model for finding: {label}")
            return
        self.findings.append({'kind': kind, 'label': label, 'exc': exc,
                              'witness': w, 'notes': dict(self.notes),
                              'path_unknown': self.path_unknown})

    def witness(self, model=None, generic=False):
        if model is None and generic:
            # prefer a witness whose numeric inputs are pairwise distinct
            # and non-zero: identity obligations ("this output IS that
            # input") only show on such values when replayed
            nums = [t for _, t in self.inputs
                    if t.sort() != z3.BoolSort() and not z3.is_int_value(t)
                    and t.sort() == z3.RealSort()]
            if 1 <= len(nums) <= 40:
                extra = [t != 0 for t in nums]
                if len(nums) > 1:
                    extra.append(z3.Distinct(*nums))
                if self._check(*extra) == z3.sat:
                    model = self._model()
        if model is None:
            r = self._check()
            if r != z3.sat:
                return None
            model = self._model()
            self.model = model
        out = {}
        for name, t in self.inputs:
            v = model.eval(t, model_completion=True)
            out[name] = _pyval(v)
        return out

    def eq(self, a, b):
        if is_sym(a) or is_sym(b):
            x, y = _coerce(a, b)
            return SBool(x == y)
        return a == b

    def conc(self, x):
        """True if x is a plain concrete value"""
        return not is_sym(x)


def _lift_real(x):
    return _toreal(_lift(x))


def _pyval(v):
    if z3.is_int_value(v):
        return v.as_long()
    if z3.is_rational_value(v):
        f = Fraction(v.numerator_as_long(), v.denominator_as_long())
        return {'num': f.numerator, 'den': f.denominator}
    if z3.is_true(v):
        return True
    if z3.is_false(v):
        return False
    if z3.is_algebraic_value(v):
        a = v.approx(20)
        f = Fraction(a.numerator_as_long(), a.denominator_as_long())
        return {'num': f.numerator, 'den': f.denominator, 'approx': True}
    return str(v)


class ConcreteCtx:
    """Runs the same harness body with concrete inputs taken from a
    witness and the real libraries.  check() evaluates concretely."""
    mode = 'concrete'

    def __init__(self, witness, tol=1e-9):
        self.w = witness
        self.tol = tol
        self.failed = []        # labels of failed obligations
        self.passed = []
        self.exceptions = []
        self.reached = {}
        self.missing = []
        self.notes = {}

    def run(self, fn):
        global CUR
        CUR = self
        try:
            try:
                return fn(self)
            except (PathAbort, ShimGap, ReplayMismatch, Budget):
                raise
            except Exception as e:
                where = escaped_from_repo(e)
                if where is None:
                    raise
                self.exception(e, f"{type(e).__name__}: "
                               f"{str(e)[:120]} (raised in {where})")
                return 'EXC ' + type(e).__name__
        finally:
            CUR = None

    def _get(self, name, default):
        if name not in self.w:
            self.missing.append(name)
            return default
        v = self.w[name]
        if isinstance(v, dict):
            return v['num'] / v['den']
        return v

    def int(self, name, lo=None, hi=None):
        return int(self._get(name, lo if lo is not None else 0))

    def real(self, name, lo=None, hi=None, **k):
        return float(self._get(name, lo if lo is not None else 0.0))

    def bool(self, name):
        return bool(self._get(name, False))

    def choice(self, name, n):
        if n <= 0:
            raise PathAbort('empty choice')
        return int(self._get(name, 0))

    flag = bool

    def perm(self, name, n):
        rest = list(range(n))
        return [rest.pop(self.choice(f"{name}.{i}", len(rest)))
                for i in range(n)]

    def subset(self, name, n):
        return [i for i in range(n) if self.flag(f"{name}.{i}")]

    def assume(self, c):
        if not bool(c):
            raise PathAbort('assumption false in replay')

    def reach(self, label):
        self.reached[label] = self.reached.get(label, 0) + 1

    def note(self, k, v):
        self.notes[k] = v

    def check(self, cond, label):
        ok = bool(cond)
        (self.passed if ok else self.failed).append(label)
        return ok

    def lemma(self, cond, label):
        return self.check(cond, label)

    def exception(self, exc, label=None):
        self.exceptions.append(
            label or f"{type(exc).__name__}: {str(exc)[:200]}")

    def eq(self, a, b):
        if hasattr(a, 'item') and getattr(a, 'shape', None) == ():
            a = a.item()
        if hasattr(b, 'item') and getattr(b, 'shape', None) == ():
            b = b.item()
        try:
            return abs(a - b) <= self.tol * max(1.0, abs(a), abs(b))
        except TypeError:
            return a == b

    def conc(self, x):
        return True


# convenience functions usable from harness code in both modes
def And(*cs):
    if any(is_sym(c) or z3.is_expr(c) for c in cs):
        return SBool(z3.And(*[bexpr(c) for c in cs]))
    return all(bool(c) for c in cs)


def Or(*cs):
    if any(is_sym(c) or z3.is_expr(c) for c in cs):
        return SBool(z3.Or(*[bexpr(c) for c in cs]))
    return any(bool(c) for c in cs)


def Not(c):
    if is_sym(c) or z3.is_expr(c):
        return SBool(z3.Not(bexpr(c)))
    return not bool(c)


def Implies(a, b):
    return Or(Not(a), b)


def Sum(xs):
    xs = list(xs)
    if not xs:
        return 0
    r = xs[0]
    for x in xs[1:]:
        r = r + x
    return r
