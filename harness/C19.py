"""C19 — runs leave inputs untouched, scratch space empty, and do not
interfere.  Real run_mapping on real files; the solver chooses the failure
point (none / a worker / an environment step before or after its work),
stale files planted under the name patterns the stage uses, and the run
options that touch files."""
import os

from symx import core, mpmodel
from harness.common import Harness
from harness import stage as ST
from harness import stagechecks as SC

STALE = ['result_buffer_stale/0_2_assignment.json',
         'results_buffer_stale/0_2_assignment.json',
         'cell_type_mapper_20200101_stale/query_marker_old.h5',
         'file_tracker_stale/reference_stats_old.h5',
         'anndata_iterator_stale/query_as_csr_old.h5',
         'query_marker_stale.h5']


def _dp_setup(case, mode):
    from harness import dispatch as DP
    DP.setup(case, mode)


def classify(f, case):
    if 'result_buffer_' in f['label'] and 'scratch' in f['label']:
        return 'F9:result_buffer-left-in-scratch-after-failed-mapping'
    return None


def _h5_view(path):
    """(result records, dataset names) of an HDF5 result file"""
    if path is None or not os.path.exists(path):
        return None
    import h5py
    import cell_type_mapper.utils.output_utils as OU
    names = []
    with h5py.File(path, 'r') as f:
        f.visit(names.append)
    return OU.hdf5_to_blob(path).get('results'), sorted(names)


def h_scratch(ctx, case):
    inp = SC.inputs(case)
    work = ST.new_work()
    # baseline result (no stale files, no failure)
    base_work = ST.new_work('base')
    enc = ['dense', 'csc'][ctx.choice('encoding', 2)]
    inp.query(enc, True)
    before = inp.digests()
    kw = dict(enc=enc, bootstrap_iteration=5)
    base = ST.run(ST.make_config(inp, base_work, **kw))
    base['h5_view'] = _h5_view(base['h5'])
    ST.drop_work(base_work)
    planted = []
    if ctx.flag('plant_stale_files'):
        for rel in STALE:
            for root in (work['scratch'], work['out']):
                p = os.path.join(root, rel)
                os.makedirs(os.path.dirname(p), exist_ok=True)
                with open(p, 'w') as f:
                    f.write('[{"cell_id": "stale"}]')
                planted.append(rel)
                planted.append(os.path.dirname(rel))
    planted = [x for x in planted if x]
    # scratch of "another run" under every name a run could choose
    # without a random suffix (timestamps of the next few seconds)
    import datetime
    sentinels = []
    now = datetime.datetime.now()
    for dt in range(0, 4):
        t = now + datetime.timedelta(seconds=dt)
        ts = t.strftime('%Y%m%d%H%M%S')
        for name in (f'cell_type_mapper_{ts}', f'cell_type_mapper_{ts}_',
                     'result_buffer_', 'results_buffer',
                     'result_buffer', 'file_tracker_'):
            for root in (work['scratch'], work['out']):
                d = os.path.join(root, name)
                os.makedirs(d, exist_ok=True)
                p = os.path.join(d, 'other_run.txt')
                with open(p, 'w') as f:
                    f.write('belongs to another run')
                sentinels.append((p, 'belongs to another run'))
                planted += [name, os.path.join(name, 'other_run.txt')]
    # 0 none, 1 worker, 2 env, 3 query, 4 output location not writable
    fail = ctx.choice('failure', 5)
    earlier = ctx.flag('an_earlier_run_wrote_to_the_same_output_paths')
    if earlier:
        # a successful run with other settings (two runners-up, other
        # seed) into the very same output paths; this run asks for none
        kw['n_runners_up'] = 0
        first = ST.run(ST.make_config(inp, work, enc=enc, n_runners_up=2,
                                      bootstrap_iteration=3, rng_seed=77))
        ctx.check(first['raised'] is None, 'the earlier run succeeds')
        base_work2 = ST.new_work('base2')
        base = ST.run(ST.make_config(inp, base_work2, **kw))
        base['h5_view'] = _h5_view(base['h5'])
        ST.drop_work(base_work2)
    cfg = ST.make_config(inp, work, **kw)
    h5p = cfg['hdf5_result_path']
    h5_before = os.stat(h5p).st_mtime_ns if h5p and os.path.exists(h5p) \
        else None
    if ctx.flag('query_and_statistics_files_share_a_file_name'):
        # the same file name in two directories (copies of the inputs)
        import shutil
        for key, sub in (('query_path', 'from_lab_a'),
                         ('stats', 'from_lab_b')):
            d = os.path.join(work['base'], sub)
            os.makedirs(d)
            p = os.path.join(d, 'data.h5ad')
            if key == 'stats':
                shutil.copy(cfg['precomputed_stats']['path'], p)
                cfg['precomputed_stats'] = {'path': p}
            else:
                shutil.copy(cfg[key], p)
                cfg[key] = p
    undo = None
    if fail == 3:
        # the query file cannot be read: the run fails and so does the
        # part of the clean-up block that reads it again
        bad = os.path.join(work['base'], 'truncated_query.h5ad')
        with open(bad, 'wb') as f:
            f.write(open(cfg['query_path'], 'rb').read()[:300])
        cfg['query_path'] = bad
    if fail == 4:
        # the JSON output is asked for in a directory that does not
        # exist: the run refuses before it starts
        cfg['extended_result_path'] = os.path.join(
            work['out'], 'no_such_directory', 'result.json')
    if fail == 2:
        which = ctx.choice('env_point', len(SC.ENV_POINTS))
        when = ['before', 'after'][ctx.choice('env_when', 2)]
        undo = SC.install_env_fault(ctx, which, when)
    try:
        res = ST.run(cfg, faults=(fail == 1),
                     fault_modes=['before', 'after', 'raise_at'])
    except Exception as e:
        # raised from run_mapping's own clean-up block
        res = {'raised': e, 'json': None, 'csv': None, 'log': None,
               'h5': None, 'outcome': {}}
    finally:
        if undo:
            undo()
    abnormal = [m for m in res['outcome'].values() if m != 'ok']
    failed = res['raised'] is not None
    ctx.reach('failed run' if failed else 'successful run')
    if fail == 0 or (fail == 1 and not abnormal):
        ctx.check(not failed, 'no failure injected => the run succeeds: '
                  + str(res['raised'])[:80])
    SC.check_clean(ctx, inp, cfg, work, before, res, planted=planted,
                   sentinels=sentinels)
    if not failed and base['json'] is not None:
        ctx.check(res['json'] is not None and res['json'].get('results')
                  == base['json'].get('results'),
                  'result does not depend on files left behind by earlier '
                  'runs')
        mine = _h5_view(res['h5'])
        if mine is not None and base.get('h5_view') is not None:
            ctx.check(mine[0] == base['h5_view'][0],
                      'the HDF5 output equals that of a run into a fresh '
                      'location (nothing of an earlier output survives)')
            ctx.check(mine[1] == base['h5_view'][1],
                      'the HDF5 output holds exactly the datasets of a run '
                      'into a fresh location')
    if failed and res.get('h5') is not None and \
            os.stat(res['h5']).st_mtime_ns != h5_before:
        # (a run that dies before it reaches its output stage leaves an
        # earlier run's file as it was; one that writes must not keep the
        # earlier records)
        import cell_type_mapper.utils.output_utils as OU
        ctx.check('results' not in OU.hdf5_to_blob(res['h5']),
                  'after a failed run the HDF5 output holds no result '
                  'records (also not those of an earlier run)')
    ST.drop_work(work)
    return 'failed' if failed else 'ok'


def h_stale_buffers(ctx, case):
    """the mapping dispatch with per-chunk result files: files left in
    the result directory by other runs - directly in it or under any
    buffer-like directory name, also planted at the moment the run
    creates its own buffer directory - are neither read nor removed"""
    from harness import dispatch as DP
    from harness.common import patch
    import cell_type_mapper.type_assignment.election as el
    planted = []
    FILES = ('0_1_assignment.json', '0_2_assignment.json',
             '9_9_assignment.json')

    def plant(d, names):
        for name in names:
            sub = os.path.join(str(d), name) if name else str(d)
            os.makedirs(sub, exist_ok=True)
            for fn in FILES:
                p = os.path.join(sub, fn)
                if not os.path.exists(p):
                    with open(p, 'w') as f:
                        f.write('[{"cell_id": "stale"}]')
                    planted.append(p)

    def before(env):
        # left by an earlier run with other chunk bounds (or one that
        # died): in the result directory itself and in buffer-like
        # sub-directories
        plant(env.dir, ['', 'results_buffer', 'results_buffer_',
                        'results_buffer_old', 'result_buffer'])
    tf = getattr(el, 'tempfile', None)
    if tf is not None:
        real_mkdtemp = tf.mkdtemp
        done = []

        class _TF:
            def __getattr__(self, n):
                return getattr(tf, n)

            def mkdtemp(self, *a, **k):
                d = k.get('dir')
                if d is not None and not done:
                    done.append(1)
                    plant(d, ['results_buffer_new'])
                return real_mkdtemp(*a, **k)
        patch(el, 'tempfile', _TF())
    res = DP.run_dispatch(ctx, case, faults=False, before=before)
    if res['raised'] is not None:
        ctx.exception(res['raised'], 'stale per-chunk files disturbed the '
                      'run: ' + str(res['raised'])[:80])
        return 'EXC'
    ctx.reach('mapped')
    DP.check_dispatch(ctx, res, case)
    ctx.check(planted != [] and all(os.path.exists(p) for p in planted),
              'files of other runs are left alone')
    return 'ok'


def _rm_setup(case, mode):
    from harness import refmarkers as RM
    RM.setup(case, mode)


def _digest(path):
    import hashlib
    return hashlib.md5(open(path, 'rb').read()).hexdigest()


def h_marker_history(ctx, case):
    """the reference-marker stage run into an output location where an
    earlier run (successful on other statistics, or dead while writing)
    left its files: it succeeds, yields the tables of a run into a fresh
    location, leaves the statistics file untouched and the scratch
    directory empty"""
    from harness import refmarkers as RM
    stats_digest = {}
    real_build = RM.build_stats

    def build(path, sizes):
        r = real_build(path, sizes)
        if 'path' not in stats_digest:
            stats_digest['before'] = _digest(path)
            stats_digest['path'] = path
        return r
    RM.build_stats = build
    try:
        res = RM.run_stage(ctx, case, faults=False)
    finally:
        RM.build_stats = real_build
    ctx.note('left at output', res['prior'] + '/'
             + res.get('prior_mask', '-'))
    if res['raised'] is not None:
        ctx.exception(res['raised'], 'files left at the output location '
                      f"by an earlier run ({res['prior']}/"
                      f"{res.get('prior_mask', '-')}) make the run fail: "
                      + str(res['raised'])[:80])
        return 'EXC'
    ctx.reach('ran')
    RM.check_tables(ctx, res)
    ctx.check(_digest(stats_digest['path']) == stats_digest['before'],
              'the statistics file is not modified')
    want = {'reference_markers.h5', 'reference_markers_1worker.h5'}
    if res['route'] == 'mask':
        want |= {'reference_markers.h5.p_value_mask.h5',
                 'reference_markers_1worker.h5.p_value_mask.h5'}
    extra = [n for n in os.listdir(os.path.dirname(res['out']))
             if n not in want]
    ctx.check(extra == [], 'files are created only at the requested '
              f'output locations; extra={extra[:3]}')
    return 'ok'


def _rs_setup(case, mode):
    from harness import refstats as RS
    RS.setup(case, mode)


def h_stats_history(ctx, case):
    """reference-statistics stage in a scratch directory other runs use
    too, writing to a location where an earlier run left a file: the
    statistics are those of a clean run, the inputs keep their content,
    the other runs' files are left alone and nothing of this run stays"""
    from harness.common import Env, same_value
    from harness import refstats as RS
    from harness.C05 import expect
    env = Env(ctx)
    inp = RS.build_inputs(ctx, case, env)
    sentinels = []
    if ctx.flag('other_runs_use_the_scratch_directory'):
        for name in ('precomputation_data_buffer_',
                     'precomputation_data_buffer_other', 'tmp_other_run'):
            d = os.path.join(env.dir, name)
            os.makedirs(d)
            p = os.path.join(d, 'other_run.txt')
            with open(p, 'w') as f:
                f.write('belongs to another run')
            sentinels.append(p)
    prior = ['nothing', 'earlier_product', 'garbage'][
        ctx.choice('left_at_output', 3)]
    out = env.path('stats.h5')
    if prior == 'earlier_product':
        with env.File(out, 'w') as f:
            for k in ('n_cells', 'sum', 'sumsq', 'gt0', 'gt1', 'ge1'):
                f.create_dataset(k, data=[7.0])
            f.create_dataset('col_names', data=b'["stale_gene"]')
            f.create_dataset('cluster_to_row', data=b'{"stale": 0}')
            f.create_dataset('taxonomy_tree', data=b'{"stale": true}')
            f.create_dataset('metadata', data=b'{"stale": true}')
    elif prior == 'garbage':
        with open(out, 'wb') as f:
            f.write(b'left behind by a run that died while writing')
    res = RS.run_stage(ctx, case, env, inp)
    if res['raised'] is not None:
        ctx.exception(res['raised'], f'left at output: {prior}: '
                      + str(res['raised'])[:80])
        return 'EXC'
    ctx.reach('written')
    RS.check_stats(ctx, inp, res, env)
    with env.File(res['out'], 'r') as f:
        ctx.check('metadata' not in f, 'nothing of the file an earlier '
                  'run left at the output location survives')
    ctx.check(all(os.path.exists(p) and open(p).read()
                  == 'belongs to another run' for p in sentinels),
              'files of other runs in the scratch directory are left '
              'alone')
    mine = [n for n in os.listdir(env.dir)
            if not n.endswith('.h5ad') and n != 'stats.h5'
            and not any(p.startswith(os.path.join(env.dir, n) + os.sep)
                        for p in sentinels)]
    ctx.check(mine == [], 'nothing of this run left in the scratch '
              f"directory: {[n.rsplit('_', 1)[0] + '_*' for n in mine[:3]]}")
    # inputs keep their content
    for p in inp['paths']:
        nm = inp['names'][p]
        with env.File(p, 'r') as f:
            ok = 'X' in f
            ctx.check(ok, 'input file still has its matrix')
            if ok and case.get('enc', 'dense') == 'dense':
                x = f['X'][()]
                for i, n in enumerate(nm):
                    for g in range(len(inp['genes'])):
                        ctx.check(same_value(ctx, x[i, g],
                                             inp['rows_in_file'][n][g]),
                                  'input matrix unchanged')
    return 'ok'


def _ss_setup(case, mode):
    from harness import selstage as SS
    SS.setup(case, mode)
    import cell_type_mapper.type_assignment.marker_cache_v2 as MC
    from harness.common import patch
    patch(MC, 'print', lambda *a, **k: None)


def _strip(lookup):
    return {k: sorted(v) for k, v in lookup.items()
            if k not in ('log', 'metadata')}


def h_lookup_history(ctx, case):
    """query-marker stage: the statistics file named by the
    reference-marker file is the one consulted whenever it exists; a
    same-named file next to the marker file (left by an earlier run) is
    consulted only when the named one is gone and the search was asked
    for"""
    from harness import selstage as SS
    res = SS.run_lookup(ctx, case)
    usable = res['at_recorded'] or (res['search']
                                    and res['neighbour'] != 'nothing')
    if not usable:
        ctx.reach('no statistics file')
        ctx.check(isinstance(res['raised'], FileNotFoundError),
                  'a missing statistics file is reported')
        return 'missing'
    if res['raised'] is not None:
        ctx.exception(res['raised'], 'query-marker stage failed: '
                      + str(res['raised'])[:80])
        return 'EXC'
    if res['at_recorded'] or res['neighbour'] == 'right':
        ctx.reach('right statistics')
        ctx.check(_strip(res['out']) == _strip(res['base']),
                  'markers do not depend on a same-named statistics file '
                  'an earlier run left next to the marker file '
                  f"(neighbour={res['neighbour']}, search={res['search']})")
    else:
        ctx.reach('moved statistics')
    left = os.listdir(res['scratch'])
    ctx.check(left == [], f'scratch directory empty afterwards: {left[:3]}')
    return 'ok'


def _by_way():
    from harness import C13
    return Harness('transposition_scratch', C13.h_by_way_of_disk,
                   **C13.BY_WAY)


HARNESSES = [
    _by_way(),
    Harness('statistics_stage_history', h_stats_history, setup=_rs_setup,
            cases=[{'cells': 2, 'genes': 1, 'clusters': 1, 'max_proc': 2},
                   {'files': 2, 'cells': 1, 'genes': 1, 'clusters': 1,
                    'max_proc': 2, 'copy_data_over': True, 'K': 0}],
            thorough_cases=[{'files': 2, 'cells': 2, 'genes': 1,
                             'clusters': 2, 'max_proc': 3,
                             'copy_data_over': True},
                            {'cells': 3, 'genes': 1, 'clusters': 2,
                             'max_proc': 3, 'via_tree': True}],
            funcs=['precompute_from_anndata.precompute_summary_stats_from_'
                   'h5ad_and_lookup',
                   '_precompute_summary_stats_from_h5ad_and_lookup',
                   '_process_chunk_spec', 'precompute._create_empty_stats_'
                   'file'],
            stubs=['h5py -> model; multiprocessing -> scheduler; '
                   'read_df_from_h5ad -> names'],
            bounds='1-2 files, 1-3 cells; with and without staging copies '
                   '(copy_data_over); scratch directory shared with other '
                   "runs' directories under the stage's own name patterns; "
                   'at the output path nothing, an earlier complete file, '
                   'or a truncated one',
            expect_reach=['written']),
    Harness('query_marker_stage_history', h_lookup_history,
            setup=_ss_setup, cases=[{}], thorough_cases=[{'K': 1}],
            funcs=['marker_cache_v2.create_marker_gene_lookup_from_ref_list',
                   'create_marker_gene_lookup_from_mapping',
                   'config_utils.patch_child_to_parent',
                   'precompute_utils.run_leaf_census',
                   'create_raw_marker_gene_lookup',
                   'selection_pipeline.select_all_markers'],
            stubs=['multiprocessing -> scheduler model'],
            bounds='one reference-marker file (real marker stage, 5 '
                   'clusters / 6 genes); statistics file present or absent '
                   'at its recorded path; next to the marker file nothing, '
                   'a copy of it, or a same-named file of another '
                   'taxonomy; search on/off; 1-2 workers',
            expect_reach=['no statistics file', 'right statistics',
                          'moved statistics']),
    Harness('reference_marker_stage_history', h_marker_history,
            setup=_rm_setup,
            cases=[{'vary': [], 'history': True, 'fixed': True},
                   {'vary': [], 'history': True, 'fixed': True,
                    'route': 'mask'}],
            thorough_cases=[{'vary': ['c0'], 'history': True},
                            {'vary': ['c0'], 'history': True,
                             'route': 'mask'}],
            funcs=['markers.find_markers_for_all_taxonomy_pairs',
                   'p_value_mask.create_p_value_mask_file',
                   '_prep_output_file', '_merge_masks',
                   'p_value_markers.find_markers_for_all_taxonomy_pairs_'
                   'from_p_mask'],
            stubs=['multiprocessing -> scheduler model (real worker bodies '
                   'on real files)'],
            bounds='5 clusters / 6 genes; at the marker path and at the '
                   'mask path an earlier run left nothing, a complete '
                   'product made from other statistics, or a truncated '
                   'file; 1-3 workers',
            outside='two runs racing on the same output path',
            expect_reach=['ran'], split=16),
    Harness('mapping_scratch_and_inputs', h_scratch, setup=SC.setup,
            cases=[{}],
            funcs=['from_specified_markers.run_mapping', '_run_mapping',
                   'file_tracker.FileTracker', 'election.run_type_'
                   'assignment_on_h5ad_cpu', 'AnnDataRowIterator.'
                   '_initialize_as_csc/__del__', 'utils._clean_up',
                   'utils.mkstemp_clean'],
            stubs=['multiprocessing -> model with fault injection',
                   'one environment step of _run_mapping (file tracker, '
                   'marker cache, type assignment, marker serialisation, '
                   'CSV writer) may raise before or after its work'],
            bounds='dense / CSC query; failure: none, any worker in modes '
                   'before/after/raise, any of 5 environment steps before/'
                   'after; stale files planted (or not) under every name '
                   'pattern the stage uses in scratch and output '
                   'directories',
            outside='two OS processes racing on one directory (relies on '
                    'mkdtemp uniqueness); the other stages',
            classify=classify,
            expect_reach=['failed run', 'successful run'], split=16),
    Harness('dispatch_ignores_stale_buffers', h_stale_buffers,
            setup=_dp_setup,
            cases=[{'rows': 2, 'K': 0, 'buffer': True, 'max_proc': 2},
                   {'rows': 3, 'K': 0, 'buffer': True, 'max_proc': 1}],
            funcs=['election.run_type_assignment_on_h5ad_cpu',
                   '_run_type_assignment_on_h5ad_worker'],
            stubs=['see dispatch_order_identity of C01'],
            bounds='2-3 rows, per-chunk result files; stale files planted '
                   'under buffer-like directory names in the result '
                   'directory',
            expect_reach=['mapped']),
]
