"""C19 — runs leave inputs untouched, scratch space empty, and do not
interfere.  Real run_mapping on real files; the solver chooses the failure
point (none / a worker / an environment step before or after its work),
stale files planted under the name patterns the stage uses, and the run
options that touch files."""
import os

from symx import core, mpmodel
from harness.common import Harness
from harness import stage as ST
from harness import stagechecks as SC

STALE = ['result_buffer_stale/0_2_assignment.json',
         'results_buffer_stale/0_2_assignment.json',
         'cell_type_mapper_20200101_stale/query_marker_old.h5',
         'file_tracker_stale/reference_stats_old.h5',
         'anndata_iterator_stale/query_as_csr_old.h5',
         'query_marker_stale.h5']


def _dp_setup(case, mode):
    from harness import dispatch as DP
    DP.setup(case, mode)


def classify(f, case):
    if 'result_buffer_' in f['label'] and 'scratch' in f['label']:
        return 'F9:result_buffer-left-in-scratch-after-failed-mapping'
    return None


def h_scratch(ctx, case):
    inp = SC.inputs(case)
    work = ST.new_work()
    # baseline result (no stale files, no failure)
    base_work = ST.new_work('base')
    enc = ['dense', 'csc'][ctx.choice('encoding', 2)]
    inp.query(enc, True)
    before = inp.digests()
    kw = dict(enc=enc, bootstrap_iteration=5)
    base = ST.run(ST.make_config(inp, base_work, **kw))
    ST.drop_work(base_work)
    planted = []
    if ctx.flag('plant_stale_files'):
        for rel in STALE:
            for root in (work['scratch'], work['out']):
                p = os.path.join(root, rel)
                os.makedirs(os.path.dirname(p), exist_ok=True)
                with open(p, 'w') as f:
                    f.write('[{"cell_id": "stale"}]')
                planted.append(rel)
                planted.append(os.path.dirname(rel))
    planted = [x for x in planted if x]
    # scratch of "another run" under every name a run could choose
    # without a random suffix (timestamps of the next few seconds)
    import datetime
    sentinels = []
    now = datetime.datetime.now()
    for dt in range(0, 4):
        t = now + datetime.timedelta(seconds=dt)
        ts = t.strftime('%Y%m%d%H%M%S')
        for name in (f'cell_type_mapper_{ts}', f'cell_type_mapper_{ts}_',
                     'result_buffer_', 'results_buffer',
                     'result_buffer', 'file_tracker_'):
            for root in (work['scratch'], work['out']):
                d = os.path.join(root, name)
                os.makedirs(d, exist_ok=True)
                p = os.path.join(d, 'other_run.txt')
                with open(p, 'w') as f:
                    f.write('belongs to another run')
                sentinels.append((p, 'belongs to another run'))
                planted += [name, os.path.join(name, 'other_run.txt')]
    fail = ctx.choice('failure', 4)     # 0 none, 1 worker, 2 env, 3 query
    cfg = ST.make_config(inp, work, **kw)
    undo = None
    if fail == 3:
        # the query file cannot be read: the run fails and so does the
        # part of the clean-up block that reads it again
        bad = os.path.join(work['base'], 'truncated_query.h5ad')
        with open(bad, 'wb') as f:
            f.write(open(cfg['query_path'], 'rb').read()[:300])
        cfg['query_path'] = bad
    if fail == 2:
        which = ctx.choice('env_point', len(SC.ENV_POINTS))
        when = ['before', 'after'][ctx.choice('env_when', 2)]
        undo = SC.install_env_fault(ctx, which, when)
    try:
        res = ST.run(cfg, faults=(fail == 1),
                     fault_modes=['before', 'after', 'raise_at'])
    except Exception as e:
        # raised from run_mapping's own clean-up block
        res = {'raised': e, 'json': None, 'csv': None, 'log': None,
               'h5': None, 'outcome': {}}
    finally:
        if undo:
            undo()
    abnormal = [m for m in res['outcome'].values() if m != 'ok']
    failed = res['raised'] is not None
    ctx.reach('failed run' if failed else 'successful run')
    if fail == 0 or (fail == 1 and not abnormal):
        ctx.check(not failed, 'no failure injected => the run succeeds: '
                  + str(res['raised'])[:80])
    SC.check_clean(ctx, inp, cfg, work, before, res, planted=planted,
                   sentinels=sentinels)
    if not failed and base['json'] is not None:
        ctx.check(res['json'] is not None and res['json'].get('results')
                  == base['json'].get('results'),
                  'result does not depend on files left behind by earlier '
                  'runs')
    ST.drop_work(work)
    return 'failed' if failed else 'ok'


def h_stale_buffers(ctx, case):
    """the mapping dispatch with per-chunk result files: files left in
    the result directory by other runs (under any buffer-like name) are
    neither read nor removed"""
    from harness import dispatch as DP
    import cell_type_mapper.type_assignment.election as el
    real_mkdtemp = el.tempfile.mkdtemp
    planted = []

    class _TF:
        def __getattr__(self, n):
            return getattr(__import__('tempfile'), n)

        def mkdtemp(self, *a, **k):
            # plant the stale files just before the run creates its own
            # buffer directory
            d = k.get('dir')
            if d is not None and not planted:
                for name in ('results_buffer', 'results_buffer_',
                             'results_buffer_old', 'result_buffer'):
                    sub = os.path.join(str(d), name)
                    os.makedirs(sub, exist_ok=True)
                    for fn in ('0_1_assignment.json', '0_2_assignment.json',
                               '9_9_assignment.json'):
                        p = os.path.join(sub, fn)
                        with open(p, 'w') as f:
                            f.write('[{"cell_id": "stale"}]')
                        planted.append(p)
            return real_mkdtemp(*a, **k)
    from harness.common import patch
    patch(el, 'tempfile', _TF())
    res = DP.run_dispatch(ctx, case, faults=False)
    if res['raised'] is not None:
        ctx.exception(res['raised'], 'stale per-chunk files disturbed the '
                      'run: ' + str(res['raised'])[:80])
        return 'EXC'
    ctx.reach('mapped')
    DP.check_dispatch(ctx, res, case)
    ctx.check(planted != [] and all(os.path.exists(p) for p in planted),
              'files of other runs are left alone')
    return 'ok'


HARNESSES = [
    Harness('mapping_scratch_and_inputs', h_scratch, setup=SC.setup,
            cases=[{}],
            funcs=['from_specified_markers.run_mapping', '_run_mapping',
                   'file_tracker.FileTracker', 'election.run_type_'
                   'assignment_on_h5ad_cpu', 'AnnDataRowIterator.'
                   '_initialize_as_csc/__del__', 'utils._clean_up',
                   'utils.mkstemp_clean'],
            stubs=['multiprocessing -> model with fault injection',
                   'one environment step of _run_mapping (file tracker, '
                   'marker cache, type assignment, marker serialisation, '
                   'CSV writer) may raise before or after its work'],
            bounds='dense / CSC query; failure: none, any worker in modes '
                   'before/after/raise, any of 5 environment steps before/'
                   'after; stale files planted (or not) under every name '
                   'pattern the stage uses in scratch and output '
                   'directories',
            outside='two OS processes racing on one directory (relies on '
                    'mkdtemp uniqueness); the other stages',
            classify=classify,
            expect_reach=['failed run', 'successful run'], split=16),
    Harness('dispatch_ignores_stale_buffers', h_stale_buffers,
            setup=_dp_setup,
            cases=[{'rows': 2, 'K': 0, 'buffer': True, 'max_proc': 2},
                   {'rows': 3, 'K': 0, 'buffer': True, 'max_proc': 1}],
            funcs=['election.run_type_assignment_on_h5ad_cpu',
                   '_run_type_assignment_on_h5ad_worker'],
            stubs=['see dispatch_order_identity of C01'],
            bounds='2-3 rows, per-chunk result files; stale files planted '
                   'under buffer-like directory names in the result '
                   'directory',
            expect_reach=['mapped']),
]
