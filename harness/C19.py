"""C19 — runs leave inputs untouched, scratch space empty, and do not
interfere.  Real run_mapping on real files; the solver chooses the failure
point (none / a worker / an environment step before or after its work),
stale files planted under the name patterns the stage uses, and the run
options that touch files."""
import os

from symx import core, mpmodel
from harness.common import Harness
from harness import stage as ST
from harness import stagechecks as SC

STALE = ['result_buffer_stale/0_2_assignment.json',
         'results_buffer_stale/0_2_assignment.json',
         'cell_type_mapper_20200101_stale/query_marker_old.h5',
         'file_tracker_stale/reference_stats_old.h5',
         'anndata_iterator_stale/query_as_csr_old.h5',
         'query_marker_stale.h5']


def classify(f, case):
    if 'result_buffer_' in f['label'] and 'scratch' in f['label']:
        return 'F9:result_buffer-left-in-scratch-after-failed-mapping'
    return None


def h_scratch(ctx, case):
    inp = SC.inputs(case)
    work = ST.new_work()
    # baseline result (no stale files, no failure)
    base_work = ST.new_work('base')
    enc = ['dense', 'csc'][ctx.choice('encoding', 2)]
    inp.query(enc, True)
    before = inp.digests()
    kw = dict(enc=enc, bootstrap_iteration=5)
    base = ST.run(ST.make_config(inp, base_work, **kw))
    ST.drop_work(base_work)
    planted = []
    if ctx.flag('plant_stale_files'):
        for rel in STALE:
            for root in (work['scratch'], work['out']):
                p = os.path.join(root, rel)
                os.makedirs(os.path.dirname(p), exist_ok=True)
                with open(p, 'w') as f:
                    f.write('[{"cell_id": "stale"}]')
                planted.append(rel)
                planted.append(os.path.dirname(rel))
    planted = [x for x in planted if x]
    fail = ctx.choice('failure', 3)     # 0 none, 1 worker, 2 environment
    cfg = ST.make_config(inp, work, **kw)
    undo = None
    if fail == 2:
        which = ctx.choice('env_point', len(SC.ENV_POINTS))
        when = ['before', 'after'][ctx.choice('env_when', 2)]
        undo = SC.install_env_fault(ctx, which, when)
    try:
        res = ST.run(cfg, faults=(fail == 1),
                     fault_modes=['before', 'after', 'raise_at'])
    finally:
        if undo:
            undo()
    abnormal = [m for m in res['outcome'].values() if m != 'ok']
    failed = res['raised'] is not None
    ctx.reach('failed run' if failed else 'successful run')
    if fail == 0 or (fail == 1 and not abnormal):
        ctx.check(not failed, 'no failure injected => the run succeeds: '
                  + str(res['raised'])[:80])
    SC.check_clean(ctx, inp, cfg, work, before, res, planted=planted)
    if not failed and base['json'] is not None:
        ctx.check(res['json'] is not None and res['json'].get('results')
                  == base['json'].get('results'),
                  'result does not depend on files left behind by earlier '
                  'runs')
    ST.drop_work(work)
    return 'failed' if failed else 'ok'


HARNESSES = [
    Harness('mapping_scratch_and_inputs', h_scratch, setup=SC.setup,
            cases=[{}],
            funcs=['from_specified_markers.run_mapping', '_run_mapping',
                   'file_tracker.FileTracker', 'election.run_type_'
                   'assignment_on_h5ad_cpu', 'AnnDataRowIterator.'
                   '_initialize_as_csc/__del__', 'utils._clean_up',
                   'utils.mkstemp_clean'],
            stubs=['multiprocessing -> model with fault injection',
                   'one environment step of _run_mapping (file tracker, '
                   'marker cache, type assignment, marker serialisation, '
                   'CSV writer) may raise before or after its work'],
            bounds='dense / CSC query; failure: none, any worker in modes '
                   'before/after/raise, any of 5 environment steps before/'
                   'after; stale files planted (or not) under every name '
                   'pattern the stage uses in scratch and output '
                   'directories',
            outside='two OS processes racing on one directory (relies on '
                    'mkdtemp uniqueness); the other stages',
            classify=classify,
            expect_reach=['failed run', 'successful run'], split=16),
]
