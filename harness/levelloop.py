"""Shared harness body: the real per-level assignment loop
(election.run_type_assignment -> _run_type_assignment -> choose_node ->
aggregate_votes) on solver-chosen trees with arbitrary vote tallies.
Used by C01 (tree consistency), C03 (confidence arithmetic), C06, C17."""
import numpy as np

from symx import core
from symx.core import And, Or, Not, Implies, Sum
from harness.common import (patch, install_np, shimmed, arr, set_mode,
                            level_names, tree_data, symbolic_parents)

import cell_type_mapper.type_assignment.election as el
from cell_type_mapper.taxonomy.taxonomy_tree import TaxonomyTree
from cell_type_mapper.cell_by_gene.cell_by_gene import CellByGeneMatrix


def setup(case, mode):
    set_mode(mode)
    if shimmed(mode):
        install_np(el)


class _Obj:
    pass


class VoteOracle:
    """arbitrary vote / correlation tallies per (cell tag, parent);
    plays the role of assemble_query_data + tally_votes"""

    def __init__(self, ctx, parents, levels, names, IT, tree_levels=None):
        self.ctx, self.parents, self.levels, self.names = (
            ctx, parents, levels, names)
        self.IT = IT
        # levels of the (possibly reduced) tree the code is run on
        self.tree_levels = list(tree_levels) if tree_levels else list(levels)
        self.v = {}
        self.c = {}
        self.visits = []

    # independent tree oracle (never uses repository code)
    def parent_of(self, li, name):
        i = self.names[li].index(name)
        return self.names[li - 1][self.parents[li][i]]

    def children_of(self, parent_node):
        if parent_node is None:
            return list(self.names[0])
        li = self.levels.index(parent_node[0])
        pi = self.names[li].index(parent_node[1])
        return [self.names[li + 1][i]
                for i, p in enumerate(self.parents[li + 1]) if p == pi]

    def leaves_under(self, li, name):
        """leaf names under node `name` of level li"""
        if li == len(self.levels) - 1:
            return [name]
        out = []
        for ch in self.children_of((self.levels[li], name)):
            out += self.leaves_under(li + 1, ch)
        return out

    def assemble(self, full_query_data, mean_profile_matrix, taxonomy_tree,
                 marker_cache_path, parent_node):
        tl = self.tree_levels
        child_level = tl[0] if parent_node is None \
            else tl[tl.index(parent_node[0]) + 1]
        kids = sorted(_children_in(self, self.levels, tl, parent_node,
                                   child_level))
        cl = self.levels.index(child_level)
        leaf_to_type = {}
        for k in kids:
            for lf in self.leaves_under(cl, k):
                leaf_to_type[lf] = k
        leaves = sorted(leaf_to_type)
        q, r = _Obj(), _Obj()
        q.data = full_query_data.data        # column 0 carries the tag
        r.data = (parent_node, leaves)
        return {'query_data': q, 'reference_data': r,
                'reference_types': [leaf_to_type[lf] for lf in leaves]}

    def tally(self, query_gene_data, reference_gene_data, bootstrap_factor,
              bootstrap_iteration, rng, gpu_index=0, timers=None):
        ctx = self.ctx
        parent_node, leaves = reference_gene_data
        tags = [int(t) for t in np.asarray(query_gene_data)[:, 0]]
        pk = 'root' if parent_node is None else parent_node[1]
        V = np.empty((len(tags), len(leaves)), dtype=object)
        C = np.empty((len(tags), len(leaves)), dtype=object)
        for a, t in enumerate(tags):
            self.visits.append((t, parent_node))
            for b, lf in enumerate(leaves):
                key = (t, pk, lf)
                if key not in self.v:
                    self.v[key] = ctx.int(f"v[{t},{pk},{lf}]", 0, None)
                    self.c[key] = ctx.real(f"c[{t},{pk},{lf}]")
                    # each iteration's correlation lies in [-1,1] (C02
                    # kernel harness) and is only added with a vote
                    ctx.assume(And(self.c[key] <= self.v[key],
                                   self.c[key] >= -self.v[key]))
                V[a, b] = self.v[key]
                C[a, b] = self.c[key]
            ctx.assume(ctx.eq(Sum(list(V[a, :])), self.IT))
        return arr(ctx, V, int), arr(ctx, C, float)

    def agg(self, tag, parent_node, child):
        """(votes, corr sum) the oracle gave to `child` of parent_node"""
        pk = 'root' if parent_node is None else parent_node[1]
        cl = 0 if parent_node is None \
            else self.levels.index(parent_node[0]) + 1
        lv = self.leaves_under(cl, child)
        return (Sum([self.v[(tag, pk, lf)] for lf in lv]),
                Sum([self.c[(tag, pk, lf)] for lf in lv]))


def build_tree(ctx, case):
    sizes = case['sizes']
    levels, names = level_names(sizes)
    if case.get('parents'):
        parents = {li + 1: list(p) for li, p in enumerate(case['parents'])}
    else:
        parents = symbolic_parents(ctx, sizes)
    if case.get('alias') and len(sizes) > 1:
        # node labels are only unique within a level: let one node carry
        # the label of a node of the level above (any branch)
        li = 1 + ctx.choice('alias_level', len(sizes) - 1)
        ci = ctx.choice('alias_node', sizes[li])
        pj = ctx.choice('alias_of', sizes[li - 1])
        names[li][ci] = names[li - 1][pj]
    data = tree_data(levels, names, parents)
    return levels, names, parents, data


def run_levels(ctx, case, tree, levels, names, parents, ncell, nas, IT,
               tags=None, oracle=None):
    if oracle is None:
        oracle = VoteOracle(ctx, parents, levels, names, IT,
                            tree_levels=tree.hierarchy)
    else:
        oracle.tree_levels = tree.hierarchy
    patch(el, 'assemble_query_data', oracle.assemble)
    patch(el, 'tally_votes', oracle.tally)
    tags = list(range(ncell)) if tags is None else tags
    q = CellByGeneMatrix(np.array([[float(t)] for t in tags]), ['g'],
                         'log2CPM')
    bf = {'None': 1.0}
    for lv in tree.hierarchy:
        bf[lv] = 1.0
    result = el.run_type_assignment(q, None, None, tree, bf, IT, None,
                                    n_assignments=nas)
    return oracle, result


def check_records(ctx, oracle, result, tree_levels, levels, names, parents,
                  tags, nas, IT, confidence=True):
    """obligations of C01 (path consistency) and C03 (confidence
    arithmetic) on the records returned by run_type_assignment for a tree
    whose voted levels are `tree_levels` (a sub-list of levels)."""
    ctx.check(len(result) == len(tags), 'one record per cell')
    for tag, cell in zip(tags, result):
        prod = 1
        prev_real_corr = None
        for k, lv in enumerate(tree_levels):
            li = levels.index(lv)
            ok = lv in cell and cell[lv] is not None
            ctx.check(ok, 'an assignment at every level')
            if not ok:
                return
            a = cell[lv]['assignment']
            ctx.check(str(a) in names[li], 'assignment is a node of its level')
            if k == 0:
                parent_node = None
            else:
                plv = tree_levels[k - 1]
                pa = str(cell[plv]['assignment'])
                # ancestor of `a` at level plv according to the oracle
                anc, l2 = str(a), li
                while l2 > levels.index(plv):
                    anc = oracle.parent_of(l2, anc)
                    l2 -= 1
                ctx.check(anc == pa, 'assignments form one root-to-leaf '
                          'path (child under the assigned parent)')
                parent_node = (plv, pa)
            if not confidence:
                continue
            rec = cell[lv]
            sibs = _children_in(oracle, levels, tree_levels, parent_node, lv)
            p = rec['bootstrapping_probability']
            if len(sibs) > 1:
                av, ac = _agg_in(oracle, levels, tag, parent_node, lv,
                                 str(a))
                ctx.check(ctx.eq(p * IT, av),
                          'probability == votes/iterations')
                ctx.check(And(av >= 1, av <= IT),
                          'winner has between 1 and all votes')
                ctx.check(And(p > 0, p <= 1), 'probability in (0,1]')
                ra, rp, rc = (rec['runner_up_assignment'],
                              rec['runner_up_probability'],
                              rec['runner_up_correlation'])
                ctx.check(len(ra) == len(rp) == len(rc),
                          'runner-up lists have equal length')
                ctx.check(len(ra) <= max(0, int(nas) - 1),
                          'no more runners-up than requested')
                ran = [str(x) for x in ra]
                ctx.check(len(set(ran)) == len(ran) and str(a) not in ran
                          and all(x in sibs for x in ran),
                          'runners-up are distinct siblings of the winner')
                prev = p
                tot = p
                for x, px, cx in zip(ran, rp, rc):
                    xv, xc = _agg_in(oracle, levels, tag, parent_node, lv, x)
                    ctx.check(px > 0, 'runner-up probability > 0')
                    ctx.check(px <= prev, 'runner-up probabilities '
                              'non-increasing, none above the winner')
                    ctx.check(ctx.eq(px * IT, xv),
                              'runner-up probability == its vote share')
                    ctx.check(ctx.eq(cx * xv, xc), 'runner-up correlation '
                              '== its mean correlation')
                    ctx.check(And(cx >= -1, cx <= 1),
                              'runner-up correlation in [-1,1]')
                    prev = px
                    tot = tot + px
                ctx.check(tot <= 1, 'winner + runners-up <= 1')
                if int(nas) - 1 >= len(sibs) - 1:
                    ctx.check(ctx.eq(tot, 1), 'winner + runners-up == 1 '
                              'when all siblings could be listed')
                # every vote-getting sibling is listed unless truncated
                for s in sibs:
                    if s != str(a) and s not in ran:
                        sv, _ = _agg_in(oracle, levels, tag, parent_node,
                                        lv, s)
                        ctx.check(Or(sv == 0,
                                     len(ran) == int(nas) - 1),
                                  'vote-getting siblings are all listed '
                                  'unless truncated')
                        if len(ran) == int(nas) - 1 and ran:
                            ctx.check(sv * 1 <= prev * IT,
                                      'omitted sibling has no more votes '
                                      'than the last listed')
                corr = rec['avg_correlation']
                ctx.check(ctx.eq(corr * av, ac),
                          'avg_correlation == mean winning correlation')
                ctx.check(And(corr >= -1, corr <= 1),
                          'avg_correlation in [-1,1]')
                prev_real_corr = corr
            else:
                ctx.check(ctx.eq(p, 1), 'single child => probability 1')
                ctx.check(len(rec['runner_up_assignment']) == 0
                          and len(rec['runner_up_probability']) == 0
                          and len(rec['runner_up_correlation']) == 0,
                          'single child => no runners-up')
                # nearest level where a real choice was made: above if
                # any, otherwise the nearest below
                exp = prev_real_corr
                if exp is None:
                    for k2 in range(k + 1, len(tree_levels)):
                        lv2 = tree_levels[k2]
                        pn2 = (tree_levels[k2 - 1],
                               str(cell[tree_levels[k2 - 1]]['assignment']))
                        if len(_children_in(oracle, levels, tree_levels,
                                            pn2, lv2)) > 1:
                            exp = cell[lv2]['avg_correlation']
                            break
                if exp is not None:
                    ctx.check(ctx.eq(rec['avg_correlation'], exp),
                              'single child => correlation of the nearest '
                              'level where a real choice was made')
                ctx.check(rec['avg_correlation'] is not None and
                          And(rec['avg_correlation'] >= -1,
                              rec['avg_correlation'] <= 1),
                          'avg_correlation is a number in [-1,1]')
            prod = prod * p
            ctx.check(ctx.eq(rec['aggregate_probability'], prod),
                      'aggregate probability == running product')


def _children_in(oracle, levels, tree_levels, parent_node, child_level):
    """children at child_level (in the possibly reduced tree) of
    parent_node"""
    cl = levels.index(child_level)
    if parent_node is None:
        return list(oracle.names[cl])
    pl = levels.index(parent_node[0])
    out = []
    for n in oracle.names[cl]:
        anc, l2 = n, cl
        while l2 > pl:
            anc = oracle.parent_of(l2, anc)
            l2 -= 1
        if anc == parent_node[1]:
            out.append(n)
    return out


def _agg_in(oracle, levels, tag, parent_node, child_level, child):
    pk = 'root' if parent_node is None else parent_node[1]
    cl = levels.index(child_level)
    lv = oracle.leaves_under(cl, child)
    return (Sum([oracle.v[(tag, pk, lf)] for lf in lv]),
            Sum([oracle.c[(tag, pk, lf)] for lf in lv]))


def validator_accepts(data):
    try:
        return TaxonomyTree(data=data), None
    except RuntimeError as e:
        return None, e
