"""C13 — on-disk sparse transposition and reshaping preserve the matrix.
Real functions: csc_to_csr.transpose_sparse_matrix_on_disk,
_calculate_csr_indptr, csc_to_csr_on_disk, transpose_by_way_of_disk,
h5_utils._get_slices_for_copy, sparse_utils.merge_csr."""
import numpy as np

from symx import core
from symx.core import And, Or, Not, Implies, Sum
from harness.common import (Harness, patch, install_np, install_h5, shimmed,
                            arr, set_mode, Env, dense_from_bits, to_csr,
                            to_csc, same_value)

import cell_type_mapper.utils.csc_to_csr as M
import cell_type_mapper.utils.h5_utils as HU
import cell_type_mapper.utils.sparse_utils as SU

CHUNKS = [1, 2, 3, 1000]


def setup_tr(case, mode):
    set_mode(mode)
    if shimmed(mode):
        install_np(M)
        install_h5(M)


class FloorModel:
    """The code floors its derived block sizes with max(100, .).  For a
    small matrix that makes every budget equivalent.  The floor is
    generalised: each of the three max(100, x) calls returns a
    solver-chosen block size from CHUNKS (1000 stands for 'everything at
    once'), which covers every budget and exercises the multi-block
    loops that need > 100 stored entries in production."""

    def __init__(self, ctx):
        self.ctx, self.n = ctx, 0

    def __call__(self, *a, **k):
        if len(a) == 2 and isinstance(a[0], int) and a[0] == 100 and not k:
            self.n += 1
            return CHUNKS[self.ctx.choice(f"block{self.n}", len(CHUNKS))]
        return max(*a, **k)


def classify_tr(f, case):
    if 'ValueError' in str(f.get('exc')) + f['label'] and \
            'hunk' in f['label'] + str(f.get('notes')):
        w = f['witness']
        nr, nc = case['shape']
        lo = w.get('slice_lo', 0) if case.get('slice') else 0
        hi = lo + 1 + w.get('slice_len', 0) if case.get('slice') else nr
        nnz = sum(1 for r in range(lo, hi) for c in range(nc)
                  if w.get(f"x.nz[{r},{c}]") is True)
        if nnz == 0:
            return ('F2:transpose-with-data-array-and-no-stored-entry:'
                    'chunks=(0,)')
    return None


def h_transpose(ctx, case):
    """transpose_sparse_matrix_on_disk on every pattern, symbolic values,
    every block size, optional data array, optional minor-index slice"""
    nr, nc = case['shape']
    env = Env(ctx)
    dense = dense_from_bits(ctx, 'x', nr, nc)
    # CSC input: major = columns, minor indices = rows
    indptr, indices, data = to_csc(dense)
    use_data = ctx.flag('use_data') if case.get('data', 'both') == 'both' \
        else case['data']
    sl = None
    if case.get('slice'):
        lo = ctx.choice('slice_lo', nr)
        hi = lo + 1 + ctx.choice('slice_len', nr - lo)
        sl = (lo, hi)
    patch(M, 'max', FloorModel(ctx))
    src = env.path('src.h5')
    with env.File(src, 'w') as f:
        env.write_sparse(f, indptr, indices, data if use_data else None,
                         dtype=np.float64)
    out = env.path('out.h5')
    try:
        with env.File(src, 'r') as f:
            M.transpose_sparse_matrix_on_disk(
                indices_handle=f['indices'], indptr_handle=f['indptr'],
                data_handle=f['data'] if use_data else None,
                indices_max=nr, max_gb=1, output_path=out, verbose=False,
                indices_slice=sl)
    except Exception as e:
        ctx.exception(e)
        return 'EXC ' + type(e).__name__
    ctx.reach('transposed')
    r0, r1 = sl if sl is not None else (0, nr)
    with env.File(out, 'r') as f:
        oip = [int(v) for v in f['indptr'][()]]
        oix = [int(v) for v in f['indices'][()]]
        odt = list(f['data'][()]) if use_data else None
        ctx.check(('data' in f) == bool(use_data),
                  'value array written iff one was given')
    nnz = sum(1 for r in range(r0, r1) for c in range(nc)
              if dense[r][c] is not None)
    ctx.check(len(oip) == (r1 - r0) + 1 and oip[0] == 0 and oip[-1] == nnz
              and all(a <= b for a, b in zip(oip, oip[1:])),
              'pointer array monotone from 0 to the number of stored '
              'entries')
    ctx.check(len(oix) == nnz and (odt is None or len(odt) == nnz),
              'index / value arrays have one slot per stored entry')
    for r in range(r0, r1):
        cols = [c for c in range(nc) if dense[r][c] is not None]
        seg = oix[oip[r - r0]:oip[r - r0 + 1]]
        ctx.check(seg == cols, 'minor indices of each slice are exactly the '
                  'stored positions, sorted and unique')
        if use_data and seg == cols:
            for k, c in enumerate(cols):
                ctx.check(same_value(ctx, odt[oip[r - r0] + k], dense[r][c]),
                          'every stored value sits at its transposed '
                          'position')
    return 'ok'


def setup_slices(case, mode):
    set_mode(mode)
    if shimmed(mode):
        install_np(HU)


def h_slices(ctx, case):
    """_get_slices_for_copy: the hyperslabs tile the dataset exactly"""
    nd = case['ndim']
    shape = tuple(int(ctx.choice(f"dim{i}", case['max_dim']) + 1)
                  for i in range(nd))
    me = ctx.int('max_elements', 1, 40) if nd == 1 \
        else ctx.choice('max_elements-1', 30) + 1
    try:
        per_dim = HU._get_slices_for_copy(shape, me)
    except Exception as e:
        ctx.exception(e)
        return 'EXC'
    ctx.reach('sliced')
    ctx.check(len(per_dim) == nd, 'one slice list per dimension')
    for d, sl in enumerate(per_dim):
        cover = [0] * shape[d]
        for a in sl:
            for i in range(int(a.start), int(a.stop), 1):
                cover[i] += 1
        ctx.check(all(c == 1 for c in cover),
                  'slices tile every dimension exactly once')
        ctx.check(all(int(a.stop) > int(a.start) for a in sl),
                  'no empty slice')
    return 'ok'


def setup_merge(case, mode):
    set_mode(mode)
    if shimmed(mode):
        install_np(SU)


def h_merge_csr(ctx, case):
    """merge_csr: pointer arithmetic when concatenating CSR pieces"""
    nc = case['cols']
    pieces = []
    denses = []
    for p in range(case['pieces']):
        nr = case['rows'][p]
        d = dense_from_bits(ctx, f"m{p}", nr, nc)
        denses += d
        ip, ix, dt = to_csr(d)
        pieces.append((ip, ix, dt))
    data_list = [arr(ctx, p[2]) if p[2] else (np.zeros(0) if ctx.mode != 'sym' else arr(ctx, [])) for p in pieces]
    idx_list = [np.array(p[1], dtype=int) for p in pieces]
    ptr_list = [np.array(p[0], dtype=int) for p in pieces]
    try:
        data, indices, indptr = SU.merge_csr(data_list, idx_list, ptr_list)
    except Exception as e:
        ctx.exception(e)
        return 'EXC ' + type(e).__name__
    ctx.reach('merged')
    eip, eix, edt = to_csr(denses)
    ctx.check([int(v) for v in indptr] == eip,
              'merged pointer array == pointer array of the stacked matrix')
    ctx.check([int(v) for v in indices] == eix, 'merged indices')
    ok = len(data) == len(edt)
    ctx.check(ok, 'merged data length')
    if ok:
        for a, b in zip(list(data), edt):
            ctx.check(same_value(ctx, a, b), 'merged data values')
    return 'ok'


HARNESSES = [
    Harness('transpose_on_disk', h_transpose, setup=setup_tr,
            cases=[{'shape': [2, 3]}, {'shape': [3, 2]},
                   {'shape': [2, 2], 'slice': True}],
            thorough_cases=[{'shape': [2, 3]}, {'shape': [3, 2]},
                            {'shape': [3, 3], 'data': True},
                            {'shape': [2, 3], 'slice': True},
                            {'shape': [3, 2], 'slice': True},
                            {'shape': [1, 4]}, {'shape': [4, 1]}],
            funcs=['csc_to_csr.transpose_sparse_matrix_on_disk',
                   'csc_to_csr._calculate_csr_indptr',
                   'csc_to_csr._get_uint_dtype', '_get_bytes_for_type'],
            stubs=['h5py -> in-memory model enforcing chunk-shape and '
                   'ordered-selection preconditions',
                   'builtin max in csc_to_csr: max(100, x) -> solver-chosen '
                   'block size in {1,2,3,all} (generalised floor; covers '
                   'every memory budget)'],
            bounds='every sparsity pattern of 2x3, 3x2 (thorough: 3x3 with '
                   'data, 1x4, 4x1) incl. empty slices and no stored entry; '
                   'values symbolic reals; with and without value array; '
                   'every block size for the three internal loops; every '
                   'minor-axis sub-range (2x2; thorough 2x3, 3x2)',
            outside='matrices with > 100 stored entries under the real '
                    'floor (the generalised floor exercises the same '
                    'loops); HDF5 storage layer',
            classify=classify_tr, expect_reach=['transposed'], selftest=12,
            split=64),
    Harness('copy_slices', h_slices, setup=setup_slices,
            cases=[{'ndim': 1, 'max_dim': 8}, {'ndim': 2, 'max_dim': 5}],
            funcs=['h5_utils._get_slices_for_copy'],
            bounds='1-D up to 8, 2-D up to 5x5, max_elements symbolic in '
                   '[1,40]',
            expect_reach=['sliced'], selftest=20),
    Harness('merge_csr', h_merge_csr, setup=setup_merge,
            cases=[{'cols': 2, 'pieces': 2, 'rows': [1, 2]},
                   {'cols': 2, 'pieces': 3, 'rows': [1, 1, 1]}],
            funcs=['sparse_utils.merge_csr'],
            bounds='2-3 CSR pieces of 1-2 rows x 2 columns, every pattern, '
                   'symbolic values',
            expect_reach=['merged'], selftest=20),
]
