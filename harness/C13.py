"""C13 — on-disk sparse transposition and reshaping preserve the matrix.
Real functions: csc_to_csr.transpose_sparse_matrix_on_disk,
_calculate_csr_indptr, csc_to_csr_on_disk, transpose_by_way_of_disk,
h5_utils._get_slices_for_copy, sparse_utils.merge_csr."""
import numpy as np

from symx import core
from symx.core import And, Or, Not, Implies, Sum
from harness.common import (Harness, patch, install_np, install_h5, shimmed,
                            arr, set_mode, Env, dense_from_bits, to_csr,
                            to_csc, same_value)

import cell_type_mapper.utils.csc_to_csr as M
import cell_type_mapper.utils.h5_utils as HU
import cell_type_mapper.utils.sparse_utils as SU
import cell_type_mapper.utils.csc_to_csr_parallel as PAR
import cell_type_mapper.utils.anndata_utils as AU

CHUNKS = [1, 2, 3, 1000]


def setup_tr(case, mode):
    set_mode(mode)
    if shimmed(mode):
        install_np(M)
        install_h5(M)


class FloorModel:
    """The code floors its derived block sizes with max(100, .).  For a
    small matrix that makes every budget equivalent.  The floor is
    generalised: each of the three max(100, x) calls returns a
    solver-chosen block size from CHUNKS (1000 stands for 'everything at
    once'), which covers every budget and exercises the multi-block
    loops that need > 100 stored entries in production."""

    def __init__(self, ctx, chunks=None):
        self.ctx, self.n = ctx, 0
        self.chunks = chunks or CHUNKS

    def __call__(self, *a, **k):
        if len(a) == 2 and isinstance(a[0], int) and a[0] == 100 and not k:
            self.n += 1
            ch = self.chunks
            return ch[self.ctx.choice(f"block{self.n}", len(ch))]
        return max(*a, **k)


def classify_tr(f, case):
    if 'ValueError' in str(f.get('exc')) + f['label'] and \
            'hunk' in f['label'] + str(f.get('notes')):
        w = f['witness']
        nr, nc = case['shape']
        lo = w.get('slice_lo', 0) if case.get('slice') else 0
        hi = lo + 1 + w.get('slice_len', 0) if case.get('slice') else nr
        nnz = sum(1 for r in range(lo, hi) for c in range(nc)
                  if w.get(f"x.nz[{r},{c}]") is True)
        if nnz == 0:
            return ('F2:transpose-with-data-array-and-no-stored-entry:'
                    'chunks=(0,)')
    return None


def h_transpose(ctx, case):
    """transpose_sparse_matrix_on_disk on every pattern, symbolic values,
    every block size, optional data array, optional minor-index slice"""
    from symx.npshim import RANGE_CHECK
    nr, nc = case['shape']
    env = Env(ctx)
    if case.get('pattern') == 'ends':
        # a wide matrix (index types change at 256 / 65536 columns):
        # entries in the first and the last column only
        dense = [[(ctx.real(f"x[{r},{c}]") if c in (0, nc - 1) else None)
                  for c in range(nc)] for r in range(nr)]
    else:
        dense = dense_from_bits(ctx, 'x', nr, nc)
    # CSC input: major = columns, minor indices = rows
    indptr, indices, data = to_csc(dense)
    use_data = ctx.flag('use_data') if case.get('data', 'both') == 'both' \
        else case['data']
    # index arrays are stored in the narrowest integer type the code
    # thinks sufficient: every store must fit it
    RANGE_CHECK['on'] = ctx.mode == 'sym'
    sl = None
    if case.get('slice'):
        lo = ctx.choice('slice_lo', nr)
        hi = lo + 1 + ctx.choice('slice_len', nr - lo)
        sl = (lo, hi)
    patch(M, 'max', FloorModel(ctx))
    src = env.path('src.h5')
    with env.File(src, 'w') as f:
        env.write_sparse(f, indptr, indices, data if use_data else None,
                         dtype=np.float64)
    out = env.path('out.h5')
    try:
        with env.File(src, 'r') as f:
            M.transpose_sparse_matrix_on_disk(
                indices_handle=f['indices'], indptr_handle=f['indptr'],
                data_handle=f['data'] if use_data else None,
                indices_max=nr, max_gb=1, output_path=out, verbose=False,
                indices_slice=sl)
    except Exception as e:
        ctx.exception(e)
        return 'EXC ' + type(e).__name__
    finally:
        RANGE_CHECK['on'] = False
    ctx.reach('transposed')
    r0, r1 = sl if sl is not None else (0, nr)
    with env.File(out, 'r') as f:
        oip = [int(v) for v in f['indptr'][()]]
        oix = [int(v) for v in f['indices'][()]]
        odt = list(f['data'][()]) if use_data else None
        ctx.check(('data' in f) == bool(use_data),
                  'value array written iff one was given')
    nnz = sum(1 for r in range(r0, r1) for c in range(nc)
              if dense[r][c] is not None)
    ctx.check(len(oip) == (r1 - r0) + 1 and oip[0] == 0 and oip[-1] == nnz
              and all(a <= b for a, b in zip(oip, oip[1:])),
              'pointer array monotone from 0 to the number of stored '
              'entries')
    ctx.check(len(oix) == nnz and (odt is None or len(odt) == nnz),
              'index / value arrays have one slot per stored entry')
    for r in range(r0, r1):
        cols = [c for c in range(nc) if dense[r][c] is not None]
        seg = oix[oip[r - r0]:oip[r - r0 + 1]]
        ctx.check(seg == cols, 'minor indices of each slice are exactly the '
                  'stored positions, sorted and unique')
        if use_data and seg == cols:
            for k, c in enumerate(cols):
                ctx.check(same_value(ctx, odt[oip[r - r0] + k], dense[r][c]),
                          'every stored value sits at its transposed '
                          'position')
    return 'ok'


def setup_slices(case, mode):
    set_mode(mode)
    if shimmed(mode):
        install_np(HU)


def h_slices(ctx, case):
    """_get_slices_for_copy: the hyperslabs tile the dataset exactly"""
    nd = case['ndim']
    shape = tuple(int(ctx.choice(f"dim{i}", case['max_dim']) + 1)
                  for i in range(nd))
    me = ctx.int('max_elements', 1, 40) if nd == 1 \
        else ctx.choice('max_elements-1', 30) + 1
    try:
        per_dim = HU._get_slices_for_copy(shape, me)
    except Exception as e:
        ctx.exception(e)
        return 'EXC'
    ctx.reach('sliced')
    ctx.check(len(per_dim) == nd, 'one slice list per dimension')
    for d, sl in enumerate(per_dim):
        cover = [0] * shape[d]
        for a in sl:
            for i in range(int(a.start), int(a.stop), 1):
                cover[i] += 1
        ctx.check(all(c == 1 for c in cover),
                  'slices tile every dimension exactly once')
        ctx.check(all(int(a.stop) > int(a.start) for a in sl),
                  'no empty slice')
    return 'ok'


def setup_merge(case, mode):
    set_mode(mode)
    if shimmed(mode):
        install_np(SU)


def h_merge_csr(ctx, case):
    """merge_csr: pointer arithmetic when concatenating CSR pieces"""
    nc = case['cols']
    pieces = []
    denses = []
    for p in range(case['pieces']):
        nr = case['rows'][p]
        d = dense_from_bits(ctx, f"m{p}", nr, nc)
        denses += d
        ip, ix, dt = to_csr(d)
        pieces.append((ip, ix, dt))
    data_list = [arr(ctx, p[2]) if p[2] else (np.zeros(0) if ctx.mode != 'sym' else arr(ctx, [])) for p in pieces]
    idx_list = [np.array(p[1], dtype=int) for p in pieces]
    ptr_list = [np.array(p[0], dtype=int) for p in pieces]
    try:
        data, indices, indptr = SU.merge_csr(data_list, idx_list, ptr_list)
    except Exception as e:
        ctx.exception(e)
        return 'EXC ' + type(e).__name__
    ctx.reach('merged')
    eip, eix, edt = to_csr(denses)
    ctx.check([int(v) for v in indptr] == eip,
              'merged pointer array == pointer array of the stacked matrix')
    ctx.check([int(v) for v in indices] == eix, 'merged indices')
    ok = len(data) == len(edt)
    ctx.check(ok, 'merged data length')
    if ok:
        for a, b in zip(list(data), edt):
            ctx.check(same_value(ctx, a, b), 'merged data values')
    return 'ok'


def setup_par(case, mode):
    from symx import mpmodel
    set_mode(mode)
    if shimmed(mode):
        install_np(M, PAR)
        install_h5(M, PAR)
    patch(PAR, 'multiprocessing', mpmodel.multiprocessing)
    patch(PAR, 'print', lambda *a, **k: None)
    if case.get('small_blocks'):
        # the 1000000-element copy blocks of the join, at small scale
        from harness.common import generalise_literal
        generalise_literal(PAR, '_transpose_sparse_matrix_on_disk_v2',
                           1000000, [1000000, 1, 2])


def classify_par(f, case):
    lab = f['label'] + str(f.get('exc'))
    if 'ValueError' in lab and 'hunk' in lab:
        w = f['witness']
        nr, nc = case['shape']
        nnz = sum(1 for r in range(nr) for c in range(nc)
                  if w.get(f"x.nz[{r},{c}]") is True)
        if nnz == 0:
            return ('F14:parallel-transposition-without-stored-entry:'
                    'chunks=(0,)')
        if w.get('use_data') is True or case.get('data') is True:
            if nnz < nr + 1:
                return ('F11:parallel-transposition-data-chunks-sized-by-'
                        'indptr:nnz<minor_len+1')
    return None


def h_parallel(ctx, case):
    """transpose_sparse_matrix_on_disk_v2: minor-axis range split over
    workers, pieces concatenated in range order"""
    from symx import mpmodel
    nr, nc = case['shape']
    env = Env(ctx)
    if case.get('pattern') == 'banded':
        # large minor axis (worker sub-ranges start at 0, 8, 16, 24: file
        # names that sort differently as strings): fixed pattern, values
        # symbolic
        dense = [[(ctx.real(f"x[{r},{c}]") if (r + c) % 3 != 1 else None)
                  for c in range(nc)] for r in range(nr)]
    else:
        dense = dense_from_bits(ctx, 'x', nr, nc)
    indptr, indices, data = to_csc(dense)
    use_data = ctx.flag('use_data') if case.get('data', 'both') == 'both' \
        else case['data']
    patch(M, 'max', FloorModel(ctx, [1, 1000]) if case.get('blocks')
          else max)
    nproc = ctx.int('n_processors', 1, case.get('max_proc', 3))
    mpmodel.SCHED.reset(K=case.get('K', 1))
    src = env.path('src.h5')
    with env.File(src, 'w') as f:
        env.write_sparse(f, indptr, indices, data if use_data else None,
                         dtype=np.float64)
    out = env.path('out.h5')
    try:
        PAR.transpose_sparse_matrix_on_disk_v2(
            h5_path=src, indices_tag='indices', indptr_tag='indptr',
            data_tag='data' if use_data else None, indices_max=nr,
            max_gb=1, output_path=out, tmp_dir=env.dir,
            n_processors=nproc)
    except Exception as e:
        ctx.exception(e)
        return 'EXC ' + type(e).__name__
    ctx.reach('transposed')
    with env.File(out, 'r') as f:
        oip = [int(v) for v in f['indptr'][()]]
        oix = [int(v) for v in f['indices'][()]]
        odt = list(f['data'][()]) if use_data else None
    nnz = sum(1 for r in range(nr) for c in range(nc)
              if dense[r][c] is not None)
    ctx.check(len(oip) == nr + 1 and oip[0] == 0 and oip[-1] == nnz
              and all(a <= b for a, b in zip(oip, oip[1:])),
              'pointer array monotone from 0 to the number of stored '
              'entries')
    ok = len(oip) == nr + 1
    for r in range(nr):
        if not ok:
            break
        if oip[r + 1] - oip[r] != sum(1 for c in range(nc)
                                      if dense[r][c] is not None):
            ctx.check(False, 'every major slice has as many entries as '
                      'the matrix stores for it')
            break
        cols = [c for c in range(nc) if dense[r][c] is not None]
        seg = oix[oip[r]:oip[r + 1]]
        ctx.check(seg == cols, 'minor indices of each slice are exactly the '
                  'stored positions, sorted and unique')
        if use_data and seg == cols:
            for k, c in enumerate(cols):
                ctx.check(same_value(ctx, odt[oip[r] + k], dense[r][c]),
                          'every stored value sits at its transposed '
                          'position')
    import os
    left = [n for n in os.listdir(env.dir) if n not in ('src.h5', 'out.h5')]
    ctx.check(left == [], 'scratch directory empty afterwards')
    return 'ok'


def setup_copy(case, mode):
    set_mode(mode)
    if shimmed(mode):
        install_np(AU)
        install_h5(AU)


def h_copy_layer(ctx, case):
    """_copy_layer_to_x_dense / _copy_layer_to_x_sparse: X of the new
    file == the layer of the old one, for every storage chunking"""
    from harness.C05 import write_h5ad_x
    nr, nc = case['shape']
    enc = case['enc']
    env = Env(ctx)
    dense = dense_from_bits(ctx, 'x', nr, nc)
    src = env.path('src.h5ad')
    ch = None
    if enc == 'dense':
        if ctx.flag('chunked'):
            ch = (1 + ctx.choice('chunk_r', nr), 1 + ctx.choice('chunk_c',
                                                                nc))
        write_h5ad_x(env, src, dense, enc, layer='layers/raw',
                     dense_chunks=ch)
    else:
        write_h5ad_x(env, src, dense, enc, layer='layers/raw')
        if ctx.flag('chunked'):
            # HDF5-chunked sparse arrays (what a compressed h5ad has);
            # lengths need not be multiples of the chunk length
            ch = 1 + ctx.choice('chunk_len', 2)
            with env.File(src, 'a') as f:
                g = f['layers/raw']
                for el in ('indptr', 'indices', 'data'):
                    d = g[el][()]
                    dt = g[el].dtype
                    if len(d) >= ch:
                        del g[el]
                        g.create_dataset(el, data=d, chunks=(ch,),
                                         dtype=dt)
                    elif len(d) == 0:
                        # what anndata writes for an array without
                        # entries: resizable, shape (0,), chunks (1024,)
                        del g[el]
                        g.create_dataset(el, data=d, chunks=(1024,),
                                         maxshape=(None,), dtype=dt)
    dst = env.path('dst.h5ad')
    with env.File(dst, 'w') as f:
        f.create_group('obs')
    try:
        if enc == 'dense':
            AU._copy_layer_to_x_dense(src, dst, 'layers/raw')
        else:
            AU._copy_layer_to_x_sparse(src, dst, 'layers/raw')
    except Exception as e:
        ctx.exception(e)
        return 'EXC ' + type(e).__name__
    ctx.reach('copied')
    with env.File(dst, 'r') as f:
        if enc == 'dense':
            X = f['X'][()]
            ok = tuple(X.shape) == (nr, nc)
            ctx.check(ok, 'X has the shape of the layer')
            if ok:
                for r in range(nr):
                    for c in range(nc):
                        want = 0.0 if dense[r][c] is None else dense[r][c]
                        ctx.check(same_value(ctx, X[r, c], want),
                                  'X == layer, element by element')
            ctx.check(dict(f['X'].attrs).get('encoding-type') == 'array',
                      'encoding attribute carried over')
        else:
            ip, ix, dt = to_csr(dense) if enc == 'csr' else to_csc(dense)
            ctx.check([int(v) for v in f['X/indptr'][()]] == ip and
                      [int(v) for v in f['X/indices'][()]] == ix,
                      'sparse structure copied')
            got = list(f['X/data'][()])
            ok = len(got) == len(dt)
            ctx.check(ok, 'sparse data length')
            if ok:
                for a, b in zip(got, dt):
                    ctx.check(same_value(ctx, a, b), 'sparse data copied')
            ctx.check(dict(f['X'].attrs).get('encoding-type')
                      == f'{enc}_matrix' and
                      list(dict(f['X'].attrs).get('shape')) == [nr, nc],
                      'encoding attributes carried over')
    return 'ok'


def h_amalgamate(ctx, case):
    """amalgamate_csr_to_x / amalgamate_dense_to_x: stacking row
    selections from several files"""
    nc = case['cols']
    env = Env(ctx)
    sparse = case['sparse']
    paths, stacked = [], []
    for p in range(case['pieces']):
        d = dense_from_bits(ctx, f"m{p}", case['rows'][p], nc)
        stacked += d
        path = env.path(f'piece{p}.h5')
        with env.File(path, 'w') as f:
            if sparse:
                ip, ix, dt = to_csr(d)
                env.write_sparse(f, ip, ix, dt, dtype=np.float64)
            else:
                vals = [[0.0 if v is None else v for v in row] for row in d]
                if env.fake:
                    from symx.npshim import sarr
                    f.create_dataset('data', data=sarr(vals),
                                     dtype=np.float64)
                else:
                    f.create_dataset('data', data=np.array(
                        [[float(v) for v in row] for row in vals]))
        paths.append(path)
    dst = env.path('dst.h5ad')
    with env.File(dst, 'w') as f:
        f.create_group('obs')
    n = len(stacked)
    try:
        if sparse:
            AU.amalgamate_csr_to_x(paths, dst, (n, nc))
        else:
            AU.amalgamate_dense_to_x(paths, dst, (n, nc))
    except Exception as e:
        ctx.exception(e)
        return 'EXC ' + type(e).__name__
    ctx.reach('stacked')
    with env.File(dst, 'r') as f:
        if sparse:
            ip, ix, dt = to_csr(stacked)
            ctx.check([int(v) for v in f['X/indptr'][()]] == ip,
                      'stacked pointer array')
            ctx.check([int(v) for v in f['X/indices'][()]] == ix,
                      'stacked indices')
            got = list(f['X/data'][()])
            ok = len(got) == len(dt)
            ctx.check(ok, 'stacked data length')
            if ok:
                for a, b in zip(got, dt):
                    ctx.check(same_value(ctx, a, b), 'stacked data')
        else:
            X = f['X'][()]
            ok = tuple(X.shape) == (n, nc)
            ctx.check(ok, 'stacked shape')
            if ok:
                for r in range(n):
                    for c in range(nc):
                        want = 0.0 if stacked[r][c] is None \
                            else stacked[r][c]
                        ctx.check(same_value(ctx, X[r, c], want),
                                  'stacked dense values')
    return 'ok'


def h_copy_h5_file(ctx, case):
    """h5_utils.copy_h5_excluding_data on h5ad files as anndata writes
    them (validation and the statistics merge copy whole files with it):
    the copy reads back equal to the original"""
    import os
    import shutil
    import anndata
    import pandas as pd
    import scipy.sparse as sp
    from harness.common import sandbox_root
    import cell_type_mapper.utils.h5_utils as H5U
    d = os.path.join(sandbox_root(), 'copy_h5')
    shutil.rmtree(d, ignore_errors=True)
    os.makedirs(d)
    kind = ['dense', 'csr', 'csc'][ctx.choice('encoding', 3)]
    x = np.array([[1.5, 0, 2.0], [0, 0, 0], [0, 4.25, 0]])
    if ctx.flag('x_without_stored_entries'):
        x = np.zeros((3, 3))
    lay = np.array([[0, 7.0, 0], [1.0, 0, 0], [0, 0, 3.0]])
    if ctx.flag('layer_without_stored_entries'):
        lay = np.zeros((3, 3))
    conv = {'dense': (lambda m: m), 'csr': sp.csr_matrix,
            'csc': sp.csc_matrix}[kind]
    a = anndata.AnnData(X=conv(x), layers={'raw': conv(lay)},
                        obs=pd.DataFrame({'k': ['u', 'v', 'u']},
                                         index=['a', 'b', 'c']),
                        var=pd.DataFrame(index=['g0', 'g1', 'g2']))
    src = os.path.join(d, 'src.h5ad')
    kw = {'compression': 'gzip'} if ctx.flag('compressed') else {}
    a.write_h5ad(src, **kw)
    dst = os.path.join(d, 'dst.h5ad')
    try:
        H5U.copy_h5_excluding_data(src_path=src, dst_path=dst)
    except Exception as e:
        ctx.exception(e)
        return 'EXC ' + type(e).__name__
    ctx.reach('copied')
    b = anndata.read_h5ad(dst)

    def dn(m):
        return m.toarray() if hasattr(m, 'toarray') else np.asarray(m)
    ctx.check(bool(np.array_equal(dn(b.X), x)) and
              bool(np.array_equal(dn(b.layers['raw']), lay)),
              'X and the layer of the copy equal the original')
    ctx.check(list(b.obs.index) == ['a', 'b', 'c'] and
              list(b.obs['k']) == ['u', 'v', 'u'] and
              list(b.var.index) == ['g0', 'g1', 'g2'],
              'obs / var of the copy equal the original')
    return 'ok'


AMAL = {}


def setup_amal_files(case, mode):
    import warnings
    warnings.simplefilter('ignore')
    import cell_type_mapper.anndata_iterator.anndata_iterator as AI2
    patch(AU, 'print', lambda *a, **k: None)
    patch(AI2, 'print', lambda *a, **k: None)
    AMAL.clear()


def _amal_inputs():
    """two real h5ad files (3 cells x 3 genes), each with X and a layer
    `raw` that differ, CSR and dense; built once per job"""
    if AMAL:
        return AMAL
    import anndata
    import pandas as pd
    import scipy.sparse as sp
    from harness.common import sandbox_root
    import os
    d = os.path.join(sandbox_root(), 'amal_inputs')
    os.makedirs(d, exist_ok=True)
    mats = {}
    for tag, base, enc in (('A', 10.0, 'csr'), ('B', 50.0, 'dense')):
        x = np.array([[base + 3 * r + c if (r + c) % 2 == 0 else 0.0
                       for c in range(3)] for r in range(3)])
        x = x + (0.25 if tag == 'A' else 0.0) * (x > 0)
        raw = np.array([[base + 100 + 3 * r + c if (r + 2 * c) % 3 != 0
                         else 0.0 for c in range(3)] for r in range(3)])
        if tag == 'A':
            # the layer of file A is stored as 32-bit integers, its X as
            # floats with fractional values
            raw = raw.astype(np.int32)
        mats[tag] = {'X': x, 'raw': raw}
        conv = sp.csr_matrix if enc == 'csr' else (lambda m: m)
        a = anndata.AnnData(X=conv(x), layers={'raw': conv(raw)},
                            obs=pd.DataFrame(index=[f'{tag}{i}'
                                                    for i in range(3)]),
                            var=pd.DataFrame(index=['g0', 'g1', 'g2']))
        path = os.path.join(d, f'{tag}.h5ad')
        a.write_h5ad(path)
        mats[tag]['path'] = path
    AMAL.update(mats=mats, dir=d)
    return AMAL


def h_amalgamate_files(ctx, case):
    """amalgamate_h5ad on real files: every piece is a (file, layer, row
    list) selection; the same file may be named twice with different
    layers"""
    import os
    import anndata
    import pandas as pd
    from harness.common import sandbox_root
    inp = _amal_inputs()
    ROWS = [[0], [2, 0], [1, 2]]
    pieces, want, used = [], [], []
    for k in range(case.get('pieces', 2)):
        tag = ['A', 'B'][ctx.choice(f'file[{k}]', 2)]
        layer = ['X', 'raw'][ctx.choice(f'layer[{k}]', 2)]
        rows = ROWS[ctx.choice(f'rows[{k}]', len(ROWS))]
        pieces.append({'path': inp['mats'][tag]['path'], 'rows': list(rows),
                       'layer': layer})
        used.append((tag, layer))
        want += [inp['mats'][tag][layer][r] for r in rows]
    kinds = {str(inp['mats'][tag][layer].dtype)
             for tag, layer in used}
    want = np.array(want, dtype=float)
    sparse = ctx.flag('dst_sparse')
    work = os.path.join(sandbox_root(), 'amal_work')
    import shutil
    shutil.rmtree(work, ignore_errors=True)
    os.makedirs(os.path.join(work, 'scratch'))
    dst = os.path.join(work, 'stacked.h5ad')
    obs = pd.DataFrame(index=[f'cell{i}' for i in range(len(want))])
    var = pd.DataFrame(index=['g0', 'g1', 'g2'])
    try:
        AU.amalgamate_h5ad(src_rows=pieces, dst_path=dst, dst_obs=obs,
                           dst_var=var, dst_sparse=sparse,
                           tmp_dir=os.path.join(work, 'scratch'),
                           compression=bool(case.get('compression')))
    except RuntimeError as e:
        if len(kinds) > 1 and 'disparate data types' in str(e):
            # arrays of different types are refused, not converted
            ctx.reach('refused')
            return 'refused'
        ctx.exception(e)
        return 'EXC RuntimeError'
    except Exception as e:
        ctx.exception(e)
        return 'EXC ' + type(e).__name__
    ctx.reach('stacked')
    got = anndata.read_h5ad(dst)
    X = got.X.toarray() if hasattr(got.X, 'toarray') else np.asarray(got.X)
    ctx.check(X.shape == want.shape and
              bool(np.array_equal(np.asarray(X, dtype=float), want)),
              'X of the result == the selected rows of the selected layers, '
              f'in order (storage types of the pieces: {sorted(kinds)})')
    ctx.check(list(got.obs.index) == list(obs.index) and
              list(got.var.index) == list(var.index),
              'obs / var of the result are the ones given')
    left = os.listdir(os.path.join(work, 'scratch'))
    ctx.check(left == [], f'scratch directory empty afterwards: {left[:3]}')
    return 'ok'


def classify_amal(f, case):
    w = f['witness']
    nnz = sum(1 for k, v in w.items() if '.nz[' in k and v is True)
    if case.get('sparse') and nnz == 0:
        return 'F8:amalgamate_csr_to_x-without-stored-entry'
    if case.get('sparse'):
        for p in range(case['pieces']):
            if not any(v is True for k, v in w.items()
                       if k.startswith(f"m{p}.nz[")):
                return 'F8:amalgamate_csr_to_x-piece-without-stored-entry'
    return None


def h_by_way_of_disk(ctx, case):
    """transpose_by_way_of_disk (used by the marker arrays): the
    transposed pattern, and nothing left in the caller's scratch
    directory"""
    import os
    nr, nc = case['shape']
    env = Env(ctx)
    dense = dense_from_bits(ctx, 'x', nr, nc)
    indptr, indices, _ = to_csc(dense)
    patch(M, 'max', FloorModel(ctx))
    scratch = env.path('scratch')
    os.makedirs(scratch)
    with open(os.path.join(scratch, 'other_run.txt'), 'w') as f:
        f.write('belongs to another run')
    try:
        oip, oix = M.transpose_by_way_of_disk(
            indices=np.array(indices, dtype=np.int64),
            indptr=np.array(indptr, dtype=np.int64),
            indices_max=nr, max_gb=1, tmp_dir=scratch)
    except Exception as e:
        ctx.exception(e)
        return 'EXC ' + type(e).__name__
    ctx.reach('transposed')
    oip = [int(v) for v in oip]
    oix = [int(v) for v in oix]
    want = [[c for c in range(nc) if dense[r][c] is not None]
            for r in range(nr)]
    ok = len(oip) == nr + 1 and oip[0] == 0
    ctx.check(ok, 'pointer array has one slot per row and starts at 0')
    if ok:
        for r in range(nr):
            ctx.check(oix[oip[r]:oip[r + 1]] == want[r],
                      'row r of the transpose lists the columns that '
                      'stored an entry in row r, in order')
    left = sorted(os.listdir(scratch))
    ctx.check(left == ['other_run.txt'], 'nothing of the call left in the '
              "scratch directory, other runs' files untouched: "
              f"{[n.rsplit('_', 1)[0] + '_*' if n != 'other_run.txt' else n for n in left]}")
    return 'ok'


BY_WAY = dict(
    setup=setup_tr, cases=[{'shape': [2, 2]}],
    thorough_cases=[{'shape': [2, 3]}, {'shape': [3, 2]}],
    funcs=['csc_to_csr.transpose_by_way_of_disk',
           'transpose_sparse_matrix_on_disk'],
    stubs=['h5py -> model; block-size floors -> solver-chosen block sizes'],
    bounds='every pattern of 2x2 (thorough 2x3, 3x2) incl. the matrix '
           'without stored entries; every block size',
    expect_reach=['transposed'])

HARNESSES = [
    Harness('copy_h5_file', h_copy_h5_file, cases=[{}],
            funcs=['h5_utils.copy_h5_excluding_data', '_copy_h5_element',
                   '_get_slices_for_copy'],
            stubs=['none (real h5py / anndata files)'],
            bounds='3x3 h5ad written by anndata: dense / CSR / CSC, X and a '
                   'layer each with or without stored entries, gzip or not',
            expect_reach=['copied']),
    Harness('amalgamate_h5ad_files', h_amalgamate_files,
            setup=setup_amal_files, cases=[{'pieces': 2}],
            thorough_cases=[{'pieces': 3}, {'pieces': 2,
                                           'compression': True}],
            funcs=['anndata_utils.amalgamate_h5ad', '_amalgamate_h5ad',
                   'AnnDataRowIterator.get_batch',
                   'amalgamate_csr_to_x / amalgamate_dense_to_x'],
            stubs=['none (real h5py / anndata files)'],
            bounds='two real files (3x3, CSR and dense), each with X and a '
                   'layer that differ; 2 (3) pieces, each any file, either '
                   'layer, one of three row lists (incl. out of order); '
                   'sparse or dense result',
            expect_reach=['stacked', 'refused'], split=16),
    Harness('transpose_by_way_of_disk', h_by_way_of_disk, **BY_WAY),
    Harness('transpose_on_disk', h_transpose, setup=setup_tr,
            cases=[{'shape': [2, 3]}, {'shape': [3, 2]},
                   {'shape': [2, 2], 'slice': True}]
            + [{'shape': [1, n], 'pattern': 'ends', 'data': True}
               for n in (255, 256, 257)],
            thorough_cases=[{'shape': [1, n], 'pattern': 'ends',
                             'data': True} for n in (65535, 65536, 65537)]
            + [{'shape': [2, 3]}, {'shape': [3, 2]},
                            {'shape': [3, 3], 'data': True},
                            {'shape': [2, 3], 'slice': True},
                            {'shape': [3, 2], 'slice': True},
                            {'shape': [1, 4]}, {'shape': [4, 1]}],
            funcs=['csc_to_csr.transpose_sparse_matrix_on_disk',
                   'csc_to_csr._calculate_csr_indptr',
                   'csc_to_csr._get_uint_dtype', '_get_bytes_for_type'],
            stubs=['h5py -> in-memory model enforcing chunk-shape and '
                   'ordered-selection preconditions',
                   'builtin max in csc_to_csr: max(100, x) -> solver-chosen '
                   'block size in {1,2,3,all} (generalised floor; covers '
                   'every memory budget)'],
            bounds='every sparsity pattern of 2x3, 3x2 (thorough: 3x3 with '
                   'data, 1x4, 4x1) incl. empty slices and no stored entry; '
                   'values symbolic reals; with and without value array; '
                   'every block size for the three internal loops; every '
                   'minor-axis sub-range (2x2; thorough 2x3, 3x2)',
            outside='matrices with > 100 stored entries under the real '
                    'floor (the generalised floor exercises the same '
                    'loops); HDF5 storage layer',
            classify=classify_tr, expect_reach=['transposed'], selftest=12,
            split=64),
    Harness('transpose_parallel', h_parallel, setup=setup_par,
            cases=[{'shape': [2, 2]}, {'shape': [3, 2], 'data': True},
                   {'shape': [4, 1], 'data': False, 'max_proc': 4},
                   {'shape': [30, 2], 'data': True, 'max_proc': 4,
                    'pattern': 'banded'},
                   {'shape': [2, 2], 'data': True, 'max_proc': 2, 'K': 0,
                    'small_blocks': True}],
            thorough_cases=[{'shape': [2, 2], 'K': 2}, {'shape': [3, 2]},
                            {'shape': [3, 2], 'data': True, 'max_proc': 2,
                             'K': 0, 'small_blocks': True},
                            {'shape': [2, 3]},
                            {'shape': [4, 1], 'max_proc': 4},
                            {'shape': [3, 3], 'data': True},
                            {'shape': [2, 1], 'blocks': True,
                             'max_proc': 2}],
            funcs=['csc_to_csr_parallel.transpose_sparse_matrix_on_disk_v2',
                   '_transpose_sparse_matrix_on_disk_v2',
                   '_transpose_subset_of_indices',
                   'csc_to_csr.transpose_sparse_matrix_on_disk',
                   'multiprocessing_utils.winnow_process_list'],
            stubs=['h5py -> model', 'multiprocessing -> scheduler model'],
            bounds='every pattern of 2x2, 3x2, 4x1 (thorough 2x3, 3x3), '
                   'symbolic values, 1-3 (4) workers (symbolic), with and '
                   'without value array, every completion order within K',
            classify=classify_par, expect_reach=['transposed'], selftest=4,
            split=48),
    Harness('copy_layer_to_x', h_copy_layer, setup=setup_copy,
            cases=[{'shape': [2, 3], 'enc': 'dense'},
                   {'shape': [3, 2], 'enc': 'dense'},
                   {'shape': [2, 2], 'enc': 'csr'},
                   {'shape': [2, 2], 'enc': 'csc'}],
            funcs=['anndata_utils._copy_layer_to_x_dense',
                   '_copy_layer_to_x_sparse'],
            stubs=['h5py -> model', 'the obs/var skeleton written by '
                   'anndata is replaced by an empty file'],
            bounds='every pattern of 2x3 / 3x2 (dense: contiguous or any '
                   'chunk shape) and 2x2 (CSR, CSC), symbolic values',
            expect_reach=['copied'], selftest=6, split=32),
    Harness('amalgamate_to_x', h_amalgamate, setup=setup_copy,
            cases=[{'cols': 2, 'pieces': 2, 'rows': [1, 1], 'sparse': True},
                   {'cols': 2, 'pieces': 2, 'rows': [1, 2],
                    'sparse': False}],
            thorough_cases=[{'cols': 2, 'pieces': 2, 'rows': [1, 2],
                             'sparse': True},
                            {'cols': 2, 'pieces': 3, 'rows': [1, 1, 1],
                             'sparse': True},
                            {'cols': 2, 'pieces': 2, 'rows': [2, 1],
                             'sparse': False}],
            funcs=['anndata_utils.amalgamate_csr_to_x',
                   'amalgamate_dense_to_x'],
            stubs=['h5py -> model'], classify=classify_amal,
            bounds='2-3 pieces of 1-2 rows x 2 columns, every pattern, '
                   'symbolic values',
            expect_reach=['stacked'], selftest=6),
    Harness('copy_slices', h_slices, setup=setup_slices,
            cases=[{'ndim': 1, 'max_dim': 8}, {'ndim': 2, 'max_dim': 5}],
            funcs=['h5_utils._get_slices_for_copy'],
            bounds='1-D up to 8, 2-D up to 5x5, max_elements symbolic in '
                   '[1,40]',
            expect_reach=['sliced'], selftest=20),
    Harness('merge_csr', h_merge_csr, setup=setup_merge,
            cases=[{'cols': 2, 'pieces': 2, 'rows': [1, 2]},
                   {'cols': 2, 'pieces': 3, 'rows': [1, 1, 1]}],
            funcs=['sparse_utils.merge_csr'],
            bounds='2-3 CSR pieces of 1-2 rows x 2 columns, every pattern, '
                   'symbolic values',
            expect_reach=['merged'], selftest=20),
]
