"""C12 — selected query markers cover every cluster pair as far as
possible.  Real functions: selection.select_marker_genes_v2 /
_run_selection / _choose_desperate_markers / _choose_one_gene /
_update_been_filled / _get_newly_full_mask / _get_maxed_out /
_get_taxonomy_idx, marker_selection.utils.create_utility_array,
marker_array_utils.thin_marker_gene_array_by_gene, MarkerGeneArray
(downsample_genes, masks), TaxonomyTree.leaves_to_compare.
Every input dimension ends up concrete on each path (the marker table is
a table of bits): bounded exhaustive exploration with the solver as the
enumerator of tables, query gene sets and targets."""
import contextlib
import io
import itertools
import warnings

import numpy as np

from symx import core
from harness.common import Harness, patch

from cell_type_mapper.marker_selection.marker_array import MarkerGeneArray
from cell_type_mapper.diff_exp.sparse_markers_by_pair import (
    SparseMarkersByPair)
from cell_type_mapper.diff_exp.sparse_markers_by_gene import (
    SparseMarkersByGene)
import cell_type_mapper.marker_selection.selection as SEL
import cell_type_mapper.marker_selection.selection_pipeline as SP
from cell_type_mapper.taxonomy.taxonomy_tree import TaxonomyTree

TREE = {'hierarchy': ['class', 'cluster'],
        'class': {'B': ['c2', 'c0'], 'A': ['c1']},
        'cluster': {'c0': [], 'c1': [], 'c2': []}}
TREE4 = {'hierarchy': ['class', 'cluster'],
         'class': {'B': ['c2', 'c0'], 'A': ['c1', 'c3']},
         'cluster': {'c0': [], 'c1': [], 'c2': [], 'c3': []}}


def build_array(state, genes, pairs):
    """state[g][p] in {0 none, 1 up, 2 down}"""
    G, P = len(genes), len(pairs)

    def by_pair(v):
        indptr, ind = [0], []
        for p in range(P):
            ind += [g for g in range(G) if state[g][p] == v]
            indptr.append(len(ind))
        return (np.array(ind, dtype=np.int64),
                np.array(indptr, dtype=np.int64))

    def by_gene(v):
        indptr, ind = [0], []
        for g in range(G):
            ind += [p for p in range(P) if state[g][p] == v]
            indptr.append(len(ind))
        return (np.array(ind, dtype=np.int64),
                np.array(indptr, dtype=np.int64))
    ui, up = by_pair(1)
    di, dp = by_pair(2)
    ugi, ugp = by_gene(1)
    dgi, dgp = by_gene(2)
    lookup = {'cluster': {}}
    for i, (a, b) in enumerate(pairs):
        lookup['cluster'].setdefault(a, {})[b] = i
    return MarkerGeneArray(
        gene_names=list(genes), taxonomy_pair_to_idx=lookup, n_pairs=P,
        up_by_pair=SparseMarkersByPair(gene_idx=ui, pair_idx=up),
        down_by_pair=SparseMarkersByPair(gene_idx=di, pair_idx=dp),
        up_by_gene=SparseMarkersByGene(gene_idx=ugp, pair_idx=ugi),
        down_by_gene=SparseMarkersByGene(gene_idx=dgp, pair_idx=dgi))


def h_select(ctx, case):
    tdata = TREE4 if case.get('leaves', 3) == 4 else TREE
    tree = TaxonomyTree(data=tdata)
    leaves = sorted(tree.all_leaves)
    pairs = list(itertools.combinations(leaves, 2))
    G = case['genes']
    genes = [f"g{(3 * i + 1) % 7}" for i in range(G)]
    ns = case.get('states', 3)      # 2: only none/up
    state = [[ctx.choice(f"m[{g},{p}]", ns) for p in range(len(pairs))]
             for g in range(G)]
    in_query = [ctx.flag(f"in_query[{g}]") for g in range(G)]
    query = ['q_only'] + [genes[g] for g in range(G) if in_query[g]]
    target = 1 + ctx.choice('n_per_utility-1', case.get('max_target', 2))
    results = {}
    for parent in tree.all_parents:
        arr = build_array(state, genes, pairs)
        try:
            with contextlib.redirect_stdout(io.StringIO()), \
                    warnings.catch_warnings():
                warnings.simplefilter('ignore')
                out = {}
                SP._marker_selection_worker(
                    marker_gene_array=arr, query_gene_names=list(query),
                    genes_at_a_time=1, taxonomy_tree=tree,
                    parent_node=parent, n_per_utility=target,
                    output_dict=out, stdout_lock=None, summary_log={})
                names = out[parent]
        except RuntimeError as e:
            if 'No gene overlap' in str(e) and not any(in_query):
                ctx.reach('no overlap')
                return 'no overlap'
            ctx.exception(e)
            return 'EXC ' + type(e).__name__
        except Exception as e:
            ctx.exception(e)
            return 'EXC ' + type(e).__name__
        results[parent] = list(names)
    ctx.reach('selected')
    for parent, names in results.items():
        if parent is None:
            kids = tree.children(None, None)
        else:
            kids = tree.children(parent[0], parent[1])
        lv = {k: (tree.as_leaves['class'][k] if parent is None else [k])
              for k in kids}
        rel = set()
        for a, b in itertools.combinations(kids, 2):
            for x in lv[a]:
                for y in lv[b]:
                    rel.add(tuple(sorted((x, y))))
        rel_idx = [i for i, pr in enumerate(pairs) if pr in rel]
        ctx.check(len(set(names)) == len(names), 'no duplicate genes')
        ctx.check(all(n in query and n in genes for n in names),
                  'selected genes occur in the query')
        if not rel_idx:
            ctx.check(names == [], 'a parent with nothing to discriminate '
                      'gets no markers')
            continue
        for n in names:
            g = genes.index(n) if n in genes else None
            ctx.check(g is not None and any(state[g][p] != 0
                                            for p in rel_idx),
                      'each selected gene marks a pair the parent must '
                      'discriminate')
        for p in rel_idx:
            avail = sum(1 for g in range(G)
                        if in_query[g] and state[g][p] != 0)
            got = sum(1 for n in names if n in genes
                      and state[genes.index(n)][p] != 0)
            ctx.check(got >= min(2 * target, avail),
                      'pair covered by at least min(2*target, markers '
                      'available in the query) selected genes')
    return 'ok'


def _ss_setup(case, mode):
    from harness import selstage as SS
    SS.setup(case, mode)


def h_select_all(ctx, case):
    """select_all_markers on a reference-marker file written by the
    real reference-marker stage"""
    from harness import selstage as SS
    res = SS.run_selection(ctx, case)
    if res['raised'] is not None:
        if not any(res['inq']) and 'No gene overlap' in str(res['raised']):
            ctx.reach('no overlap')
            return 'no overlap'
        ctx.exception(res['raised'])
        return 'EXC ' + type(res['raised']).__name__
    ctx.reach('selected')
    SS.check_selection(ctx, res)
    return 'ok'


def _cli_setup(case, mode):
    _ss_setup(case, mode)
    import cell_type_mapper.cli.query_markers as CLI
    import cell_type_mapper.type_assignment.marker_cache_v2 as MC
    from harness.common import patch
    patch(CLI, 'print', lambda *a, **k: None)
    patch(MC, 'print', lambda *a, **k: None)


def h_cli_override(ctx, case):
    """the query-marker command line runner (QueryMarkerRunner.run with a
    fully specified argument dict): a per-parent override of the target,
    given as ('level/node', n), has the effect of that override in the
    selection function"""
    import json
    import os
    import shutil
    from symx import mpmodel
    from harness import selstage as SS
    import cell_type_mapper.cli.query_markers as CLI
    import cell_type_mapper.type_assignment.marker_cache_v2 as MC
    lk = SS.lookup_files()
    if not os.path.exists(lk['recorded']):
        shutil.copy(lk['kept'], lk['recorded'])
    if os.path.exists(lk['neighbour']):
        os.unlink(lk['neighbour'])
    parent = [None, ('class', 'A'), ('class', 'B')][
        ctx.choice('override_parent', 3)]
    n = [0, 2][ctx.choice('override_target', 2)]    # default is 1
    nproc = 1 + ctx.choice('n_processors-1', 2)
    key = 'None' if parent is None else f"{parent[0]}/{parent[1]}"
    scratch = os.path.join(lk['root'], 'scratch')
    out = os.path.join(lk['root'], 'keep', 'cli_markers.json')
    args = dict(query_path=None, reference_marker_path_list=[lk['marker']],
                n_per_utility=1, n_per_utility_override=[(key, n)],
                n_processors=nproc, tmp_dir=scratch, drop_level=None,
                genes_at_a_time=1, search_for_stats_file=False,
                output_path=out, input_json=None, output_json=None,
                log_level='ERROR')
    runner = CLI.QueryMarkerRunner.__new__(CLI.QueryMarkerRunner)
    runner.args = args
    mpmodel.SCHED.reset(K=0)
    try:
        runner.run()
        got = json.load(open(out))
    except Exception as e:
        ctx.exception(e)
        return 'EXC ' + type(e).__name__

    def direct(override):
        mpmodel.SCHED.reset(K=0)
        return MC.create_marker_gene_lookup_from_ref_list(
            reference_marker_path_list=[lk['marker']],
            query_gene_names=list(SS.RM.GENES), n_per_utility=1,
            n_per_utility_override=override, n_processors=1,
            behemoth_cutoff=5000000, tmp_dir=scratch)

    def strip(x):
        return {k: sorted(v) for k, v in x.items()
                if k not in ('log', 'metadata')}
    want = strip(direct({parent: n}))
    plain = strip(direct(None))
    ctx.reach('ran')
    if want != plain:
        ctx.reach('override matters')
    ctx.check(strip(got) == want, f'the override ({key}, {n}) given on the '
              'command line has the effect of that override in the '
              'selection')
    return 'ok'


HARNESSES = [
    Harness('query_marker_cli_overrides', h_cli_override, setup=_cli_setup,
            cases=[{}],
            funcs=['cli.query_markers.QueryMarkerRunner.run',
                   'marker_cache_v2.create_marker_gene_lookup_from_ref_list',
                   'selection_pipeline.select_all_markers'],
            stubs=['argschema parsing -> fully specified argument dict '
                   '(QueryMarkerRunner.__new__)',
                   'multiprocessing -> scheduler model'],
            bounds='real marker file (5 clusters / 6 genes); override of '
                   'the target (0 or 2, default 1) at the root or at '
                   'either class; 1-2 workers',
            expect_reach=['ran', 'override matters']),
    Harness('select_all_markers_stage', h_select_all, setup=_ss_setup,
            cases=[{'vary_genes': ['g0', 'g3', 'g5'], 'target': 2},
                   {'vary_genes': ['g1'], 'target': 1}],
            thorough_cases=[{}, {'vary_genes': ['g0', 'g5'], 'K': 1}],
            funcs=['selection_pipeline.select_all_markers',
                   '_marker_selection_worker',
                   'MarkerGeneArray.from_cache_path / '
                   '_from_cache_path_query_genes / spawn_copy / '
                   'downsample_pairs_to_other',
                   'csc_to_csr.transpose_by_way_of_disk',
                   'selection.select_marker_genes_v2 (+ helpers)'],
            stubs=['multiprocessing -> model (workers inline)'],
            bounds='reference-marker file of 5 leaves / 6 genes written by '
                   'the real marker stage; every query gene subset; target '
                   '1-2; 1-3 workers; large-parent threshold in '
                   '{default, 0, 1, -1} (every parent on the full table / '
                   'on its own pairs); result compared with the '
                   'single-worker default run',
            expect_reach=['selected'], split=32),
    Harness('select_markers_per_parent', h_select,
            cases=[{'genes': 2}, {'genes': 3, 'max_target': 1, 'states': 2}],
            thorough_cases=[{'genes': 3, 'max_target': 2, 'states': 2},
                            {'genes': 4, 'max_target': 1, 'states': 2},
                            {'genes': 2, 'leaves': 4, 'max_target': 1,
                             'states': 2}],
            funcs=['selection_pipeline._marker_selection_worker',
                   'selection.select_marker_genes_v2', '_run_selection',
                   '_choose_desperate_markers', '_choose_gene',
                   '_choose_one_gene', '_update_marker_counts',
                   '_update_been_filled', '_get_newly_full_mask',
                   '_get_maxed_out', '_get_are_possible',
                   '_get_taxonomy_idx', 'recalculate_utility_array_batch',
                   'marker_selection.utils.create_utility_array',
                   'marker_array_utils.thin_marker_gene_array_by_gene',
                   'MarkerGeneArray.downsample_genes and mask accessors',
                   'TaxonomyTree.leaves_to_compare'],
            bounds='two-level taxonomy with 3 (thorough 4) leaves; 2-3 (4) '
                   'reference genes x every leaf pair marked none/up/down; '
                   'every query subset (+ a query-only gene); target 1-2; '
                   'every parent',
            outside='genes_at_a_time other than its default 1; '
                    'select_all_markers worker / behemoth scheduling',
            expect_reach=['selected', 'no overlap'], split=64),
]
