"""Reference-marker stage on real files: the real
diff_exp.markers.find_markers_for_all_taxonomy_pairs (worker dispatch,
per-chunk files, merge into the pair-major table, on-disk transposition
into the gene-major table, move into place) with the multiprocessing
model.  The solver chooses cluster sizes, worker count, exact/approximate
penetrance, n_valid, the gene list and (for C14) the failing worker."""
import itertools
import json
import os
import shutil
import warnings

import numpy as np

from symx import core, mpmodel
from harness.common import patch, sandbox_root, install_step_h5

import cell_type_mapper.diff_exp.markers as MK
import cell_type_mapper.utils.csc_to_csr_parallel as PAR
from cell_type_mapper.taxonomy.taxonomy_tree import TaxonomyTree

GENES = ['g2', 'g0', 'g5', 'g1', 'g4', 'g3']
LEAVES = ['c3', 'c0', 'c4', 'c1', 'c2']
CLASS = {'c0': 'A', 'c1': 'A', 'c2': 'B', 'c3': 'B', 'c4': 'B'}
HIGH = {'c0': ['g0'], 'c1': ['g1'], 'c2': ['g2', 'g5'], 'c3': ['g3'],
        'c4': ['g4', 'g5']}


BASE_GENES = list(GENES)
BASE_LEAVES = list(LEAVES)


def setup(case, mode):
    warnings.simplefilter('ignore')
    # optionally a wide gene table (index types change at 256 genes): the
    # informative genes come last
    GENES[:] = [f'silent{i}' for i in range(case.get('wide_genes', 0))] \
        + BASE_GENES
    # optionally a smaller taxonomy (two leaves = a single pair: worker
    # chunks of exactly one pair)
    LEAVES[:] = list(case.get('leaves', BASE_LEAVES))
    import cell_type_mapper.diff_exp.p_value_mask as PV
    import cell_type_mapper.diff_exp.p_value_markers as PVM
    for m in (PV, PVM):
        patch(m, 'multiprocessing', mpmodel.multiprocessing)
        patch(m, 'print', lambda *a, **k: None)
        if hasattr(m, 'print_timing'):
            patch(m, 'print_timing', lambda **k: None)
    patch(MK, 'multiprocessing', mpmodel.multiprocessing)
    patch(PAR, 'multiprocessing', mpmodel.multiprocessing)
    install_step_h5(MK, PAR, PV, PVM)
    patch(MK, 'print', lambda *a, **k: None)
    patch(MK, 'print_timing', lambda **k: None)
    patch(PAR, 'print', lambda *a, **k: None)
    if case.get('thresholds'):
        install_threshold_spies()


THRESHOLDS = {'p_th': (0.01, 0.02), 'q1_th': (0.5, 0.6),
              'q1_min_th': (0.1, 0.2), 'qdiff_th': (0.7, 0.8),
              'qdiff_min_th': (0.1, 0.2), 'log2_fold_th': (1.0, 0.9),
              'log2_fold_min_th': (0.8, 0.7)}
SEEN = {'calls': []}


def install_threshold_spies():
    """record the thresholds with which the stage calls the criteria
    kernels (whose behaviour for arbitrary thresholds is the subject of
    the symbolic kernel harnesses)"""
    import cell_type_mapper.diff_exp.p_value_mask as PV

    import inspect

    def spy(mod, name):
        real = getattr(mod, name, None)
        if real is None:
            return            # refactored away: nothing to observe here
        try:
            sig = inspect.signature(real)
        except (TypeError, ValueError):
            sig = None

        def f(*a, **k):
            kw = dict(k)
            if sig is not None:
                try:
                    kw = dict(sig.bind(*a, **k).arguments)
                except TypeError:
                    pass
            SEEN['calls'].append((name, {t: kw[t] for t in THRESHOLDS
                                         if t in kw}))
            return real(*a, **k)
        patch(mod, name, f)
        SEEN['installed'] = SEEN.get('installed', 0) + 1
    spy(MK, 'score_differential_genes')
    spy(PV, 'penetrance_parameter_distance')
    spy(PV, 'diffexp_p_values_from_stats')


def cells_of(leaf, n):
    """deterministic raw counts: n cells x genes"""
    rng = np.random.default_rng(abs(hash(leaf)) % 1000 + 7 * n)
    rows = []
    for i in range(n):
        row = []
        for g in GENES:
            if g in HIGH[leaf]:
                row.append(400.0 * (1.0 + 0.2 * rng.random()) + (i % 2))
            else:
                # mostly silent; one gene per leaf is weakly expressed
                row.append(2.0 if (g == 'g5' and i == 0) else 0.0)
        rows.append(row)
    return np.array(rows)


def build_stats(path, sizes, klass=None):
    import h5py
    leaves = sorted(LEAVES)
    data = {'hierarchy': ['class', 'cluster'],
            'class': {'A': [lf for lf in LEAVES
                            if (klass or CLASS)[lf] == 'A'],
                      'B': [lf for lf in LEAVES
                            if (klass or CLASS)[lf] == 'B']},
            'cluster': {lf: [] for lf in LEAVES}}
    tree = TaxonomyTree(data=data)
    ng = len(GENES)
    tabs = {k: np.zeros((len(leaves), ng)) for k in
            ('sum', 'sumsq', 'gt0', 'gt1', 'ge1')}
    ncell = np.zeros(len(leaves), dtype=int)
    prof = {}
    for r, lf in enumerate(leaves):
        x = cells_of(lf, sizes[lf])
        cpm = 1.0e6 * x / x.sum(axis=1)[:, None]
        ln = np.log2(1.0 + cpm)
        prof[lf] = ln
        ncell[r] = sizes[lf]
        tabs['sum'][r] = ln.sum(axis=0)
        tabs['sumsq'][r] = (ln ** 2).sum(axis=0)
        tabs['gt0'][r] = (ln > 0).sum(axis=0)
        tabs['gt1'][r] = (ln > 1).sum(axis=0)
        tabs['ge1'][r] = (ln > 1 - 1.0e-6).sum(axis=0)
    with h5py.File(path, 'w') as f:
        f.create_dataset('taxonomy_tree', data=tree.to_str().encode('utf-8'))
        f.create_dataset('col_names',
                         data=json.dumps(GENES).encode('utf-8'))
        f.create_dataset('cluster_to_row', data=json.dumps(
            {lf: i for i, lf in enumerate(leaves)}).encode('utf-8'))
        f.create_dataset('n_cells', data=ncell)
        for k, v in tabs.items():
            f.create_dataset(k, data=v if k in ('sum', 'sumsq')
                             else v.astype(int))
    return tree, prof


def read_markers(path):
    import h5py
    with h5py.File(path, 'r') as f:
        out = {'genes': json.loads(f['gene_names'][()].decode('utf-8')),
               'pair_to_idx': json.loads(f['pair_to_idx'][()].decode(
                   'utf-8')),
               'n_pairs': int(f['n_pairs'][()])}
        for grp in ('sparse_by_pair', 'sparse_by_gene'):
            for d in ('up', 'down'):
                for k in ('pair_idx', 'gene_idx'):
                    out[f'{grp}/{d}_{k}'] = f[f'{grp}/{d}_{k}'][()]
    return out


def by_pair_sets(mk, d):
    ip = mk[f'sparse_by_pair/{d}_pair_idx']
    ix = mk[f'sparse_by_pair/{d}_gene_idx']
    return [list(ix[ip[i]:ip[i + 1]]) for i in range(mk['n_pairs'])]


def by_gene_sets(mk, d):
    ip = mk[f'sparse_by_gene/{d}_gene_idx']
    ix = mk[f'sparse_by_gene/{d}_pair_idx']
    return [list(ix[ip[g]:ip[g + 1]]) for g in range(len(mk['genes']))]


def oracle_valid(prof, a, b, exact=True, p_th=0.01, lf_th=1.0):
    """strict criteria from the per-cell data; returns per gene
    True / False / None (too close to a threshold to call)"""
    from scipy import stats as sst
    xa, xb = prof[a], prof[b]
    na, nb = len(xa), len(xb)
    ng = xa.shape[1]
    if na < 2 or nb < 2:
        return [False] * ng
    ma, mb = xa.mean(axis=0), xb.mean(axis=0)
    va, vb = xa.var(axis=0, ddof=1), xb.var(axis=0, ddof=1)
    s = va / na + vb / nb
    den = np.where(np.sqrt(s) > 0, np.sqrt(s), 1.0e-10)
    tt = (ma - mb) / den
    nd = va ** 2 / (na ** 3 - na ** 2) + vb ** 2 / (nb ** 3 - nb ** 2)
    nu = s * s / np.where(nd > 0, nd, 1.0)
    cdf = sst.t.cdf(tt, df=nu)
    cdf = np.where(np.isfinite(cdf), cdf, 0.5)
    p = np.where(cdf < 0.5, 2 * cdf, 2 * (1 - cdf))
    order = np.argsort(p)
    adj = np.zeros(ng)
    run = 0.0
    for rank, gi in enumerate(order):
        run = max(run, p[gi] * (ng - rank))
        adj[gi] = min(1.0, run)
    pa = (xa > 1 - 1.0e-6).sum(axis=0) / max(1, na)
    pb = (xb > 1 - 1.0e-6).sum(axis=0) / max(1, nb)
    q1 = np.maximum(pa, pb)
    qd = np.abs(pa - pb) / np.where(q1 > 0, q1, 1.0)
    lf = np.abs(ma - mb)
    out = []
    for g in range(ng):
        close = (0.2 * p_th < adj[g] < 5 * p_th) or abs(q1[g] - 0.5) < 0.02 \
            or abs(qd[g] - 0.7) < 0.02 or abs(lf[g] - lf_th) < 0.05
        if close:
            out.append(None)
        else:
            out.append(bool(adj[g] < p_th and q1[g] > 0.5 and qd[g] > 0.7
                            and lf[g] > lf_th))
    return out


PRIOR = {}
PRIOR_SIZES = {'c0': 1, 'c1': 3, 'c2': 2, 'c3': 3, 'c4': 1}


def prior_products():
    """products of an earlier successful run on different statistics
    (marker file and p-value mask), built once per job; returned as
    bytes"""
    if PRIOR:
        return PRIOR
    root = os.path.join(sandbox_root(), 'refm_prior')
    shutil.rmtree(root, ignore_errors=True)
    os.makedirs(os.path.join(root, 'scratch'))
    stats = os.path.join(root, 'precomputed_stats.h5')
    tree, _ = build_stats(stats, PRIOR_SIZES)
    saved = getattr(core.CUR, '_mp_epoch', 0)
    mpmodel.SCHED.reset(K=0)
    import cell_type_mapper.diff_exp.p_value_mask as PV
    out = os.path.join(root, 'reference_markers.h5')
    mask = os.path.join(root, 'mask.h5')
    MK.find_markers_for_all_taxonomy_pairs(
        stats, tree, out, n_processors=1,
        tmp_dir=os.path.join(root, 'scratch'), max_gb=1)
    import h5py
    with h5py.File(out, 'a') as f:
        f.create_dataset('metadata', data=json.dumps(
            {'precomputed_path': stats}).encode('utf-8'))
    mpmodel.SCHED.reset(K=0)
    PV.create_p_value_mask_file(stats, mask, n_processors=1,
                                tmp_dir=os.path.join(root, 'scratch'),
                                n_per=8)
    if core.CUR is not None:
        core.CUR._mp_epoch = saved
    PRIOR['markers'] = open(out, 'rb').read()
    PRIOR['mask'] = open(mask, 'rb').read()
    shutil.rmtree(root, ignore_errors=True)
    return PRIOR


def plant(path, kind, which):
    """what an earlier run left at `path`"""
    if kind == 'earlier_product':
        with open(path, 'wb') as f:
            f.write(prior_products()[which])
    elif kind == 'garbage':
        with open(path, 'wb') as f:
            f.write(b'left behind by a run that died while writing')


PRIOR_KINDS = ['nothing', 'earlier_product', 'garbage']


def marker_file_complete(path):
    """would a later stage (query-marker selection) accept this file?"""
    import h5py
    try:
        read_markers(path)
        with h5py.File(path, 'r') as f:
            json.loads(f['metadata'][()].decode('utf-8'))['precomputed_path']
        return True
    except Exception:
        return False


def run_stage(ctx, case, faults=False):
    root = os.path.join(sandbox_root(), 'refm')
    shutil.rmtree(root, ignore_errors=True)
    os.makedirs(os.path.join(root, 'scratch'))
    os.makedirs(os.path.join(root, 'out'))
    sizes = {}
    small = case.get('sizes', [1, 3])
    for lf in LEAVES:
        sizes[lf] = small[ctx.choice(f"n_cells[{lf}]", len(small))] \
            if lf in case.get('vary', LEAVES) else case.get('default_size', 3)
    stats = os.path.join(root, 'stats.h5')
    tree, prof = build_stats(stats, sizes)
    fixed = case.get('fixed', False)
    exact = True if fixed else ctx.flag('exact_penetrance')
    nproc = case['nproc'] if 'nproc' in case \
        else 1 + ctx.choice('n_processors-1', 3)
    gl = None
    if not fixed and ctx.flag('gene_list'):
        gl = ['g0', 'g2', 'g4', 'not_a_reference_gene']
    n_valid = 30 if fixed else [1, 30][ctx.choice('n_valid', 2)]
    out = os.path.join(root, 'out', 'reference_markers.h5')
    res = {'sizes': sizes, 'prof': prof, 'exact': exact, 'gene_list': gl,
           'root': root, 'out': out, 'tree': tree}

    route = case.get('route', 'direct')
    res['route'] = route
    res['prior'] = 'nothing'
    if case.get('history'):
        # files an earlier run into the same output directory left
        res['prior'] = PRIOR_KINDS[ctx.choice('left_at_output', 3)]
        plant(out, res['prior'], 'markers')
        if route == 'mask':
            res['prior_mask'] = PRIOR_KINDS[ctx.choice('left_at_mask', 3)]
            plant(out + '.p_value_mask.h5', res['prior_mask'], 'mask')

    th = {}
    if case.get('thresholds'):
        # one threshold (any) away from its default
        names = sorted(THRESHOLDS)
        w = ctx.choice('non_default_threshold', len(names) + 1)
        th = {t: THRESHOLDS[t][1 if i + 1 == w else 0]
              for i, t in enumerate(names)}
        SEEN['calls'] = []
    if case.get('hair'):
        # one gene misses the strict fold threshold by a hair (1e-5) in a
        # pair that keeps another strict marker: with n_valid = 1 it must
        # not be recorded (the solver picks the pair among those that
        # have two strict markers)
        n_valid = 1
        cand = []
        for a, b in itertools.combinations(sorted(LEAVES), 2):
            if sizes[a] < 2 or sizes[b] < 2:
                continue
            want = oracle_valid(prof, a, b)
            strict = [g for g in range(len(GENES)) if want[g]]
            lf = np.abs(prof[a].mean(axis=0) - prof[b].mean(axis=0))
            if len(strict) >= 2:
                strict.sort(key=lambda g: lf[g])
                if lf[strict[1]] - lf[strict[0]] > 0.06:
                    cand.append((a, b, strict[0], float(lf[strict[0]])))
        if not cand:
            raise core.PathAbort('no pair with two strict markers')
        a, b, g, v = cand[ctx.choice('pair_with_a_near_miss', len(cand))]
        th = {'log2_fold_th': v + 1.0e-5}
        res['hair'] = (a, b, g)
    res['thresholds'] = th

    def go(path, nproc, faults_on):
        mpmodel.SCHED.reset(K=case.get('K', 0), faults=faults_on,
                            fault_modes=case.get('fault_modes'),
                            fault_steps=case.get('fault_steps', 1))
        try:
            if route == 'direct':
                MK.find_markers_for_all_taxonomy_pairs(
                    stats, tree, path, n_processors=nproc,
                    tmp_dir=os.path.join(root, 'scratch'),
                    exact_penetrance=exact, n_valid=n_valid, gene_list=gl,
                    max_gb=1, **th)
            else:
                import cell_type_mapper.diff_exp.p_value_mask as PV
                import cell_type_mapper.diff_exp.p_value_markers as PVM
                mask = path + '.p_value_mask.h5'
                res['mask'] = mask
                res['mask_stage_failed'] = True
                PV.create_p_value_mask_file(
                    stats, mask, n_processors=nproc,
                    tmp_dir=os.path.join(root, 'scratch'), n_per=8, **th)
                res['mask_stage_failed'] = False
                PVM.find_markers_for_all_taxonomy_pairs_from_p_mask(
                    stats, mask, path, n_processors=nproc,
                    tmp_dir=os.path.join(root, 'scratch'), max_gb=1,
                    n_valid=n_valid, gene_list=gl)
            return None
        except Exception as e:
            return e
    res['raised'] = go(out, nproc, faults)
    res['outcome'] = dict(mpmodel.SCHED.outcome)
    res['nproc'] = nproc
    if not faults and res['raised'] is None and (
            nproc > 1 or res['prior'] != 'nothing'
            or res.get('prior_mask', 'nothing') != 'nothing'):
        ref = os.path.join(root, 'out', 'reference_markers_1worker.h5')
        res['raised1'] = go(ref, 1, False)
        res['ref'] = ref
    return res


CLI_DEFAULTS = dict(
    drop_level=None, max_gb=1, query_path=None, n_valid=30, p_th=0.01,
    q1_th=0.5, q1_min_th=0.1, qdiff_th=0.7, qdiff_min_th=0.1,
    log2_fold_th=1.0, log2_fold_min_th=0.8, exact_penetrance=True,
    cloud_safe=False, input_json=None, output_json=None,
    log_level='ERROR')


def run_cli(ctx, case, faults=True):
    """the reference-marker command line runner (ReferenceMarkerRunner.run
    with a fully specified argument dict; argschema parsing itself is not
    part of the claim) into an output directory that may hold the product
    of an earlier run"""
    import cell_type_mapper.cli.reference_markers as CLI
    patch(CLI, 'print', lambda *a, **k: None)
    root = os.path.join(sandbox_root(), 'refcli')
    shutil.rmtree(root, ignore_errors=True)
    for d in ('scratch', 'out', 'in'):
        os.makedirs(os.path.join(root, d))
    sizes = {lf: 3 for lf in LEAVES}
    stats = os.path.join(root, 'in', 'precomputed_stats.h5')
    tree, prof = build_stats(stats, sizes)
    out = os.path.join(root, 'out', 'reference_markers.h5')
    prior = PRIOR_KINDS[ctx.choice('left_at_output', 3)]
    plant(out, prior, 'markers')
    before = open(out, 'rb').read() if os.path.exists(out) else None
    clobber = ctx.flag('clobber')
    nproc = case['nproc'] if 'nproc' in case \
        else 1 + ctx.choice('n_processors-1', 3)
    args = dict(CLI_DEFAULTS)
    if case.get('drop_levels'):
        dl = case['drop_levels']
        args['drop_level'] = dl[ctx.choice('drop_level', len(dl))]
    args.update(precomputed_path_list=[stats],
                output_dir=os.path.join(root, 'out'),
                tmp_dir=os.path.join(root, 'scratch'),
                n_processors=nproc, clobber=clobber)
    runner = CLI.ReferenceMarkerRunner.__new__(CLI.ReferenceMarkerRunner)
    runner.args = args
    mpmodel.SCHED.reset(K=case.get('K', 0), faults=faults,
                        fault_modes=case.get('fault_modes'),
                        fault_steps=case.get('fault_steps', 1))
    raised = None
    try:
        runner.run()
    except Exception as e:
        raised = e
    return {'sizes': sizes, 'prof': prof, 'exact': True, 'gene_list': None,
            'root': root, 'out': out, 'tree': tree, 'route': 'direct',
            'prior': prior, 'clobber': clobber, 'before': before,
            'raised': raised, 'outcome': dict(mpmodel.SCHED.outcome),
            'nproc': nproc, 'stats': stats,
            'drop_level': args['drop_level']}


def check_thresholds(ctx, res):
    """the criteria kernels are called with the caller's thresholds"""
    th = res['thresholds']
    calls = list(SEEN['calls'])
    if not SEEN.get('installed'):
        return
    ctx.check(len(calls) > 0, 'the criteria kernels were called')
    bad = sorted({(name, t) for name, kw in calls for t, v in kw.items()
                  if v != th[t]})
    ctx.check(bad == [], 'every threshold reaches the criteria kernels '
              f'as configured; differing: {bad[:3]}')
    need = {'score_differential_genes': set(THRESHOLDS),
            'penetrance_parameter_distance': set(THRESHOLDS) - {'p_th'},
            'diffexp_p_values_from_stats': {'p_th'}}
    miss = sorted({(name, t) for name, kw in calls
                   for t in need[name] - set(kw)})
    ctx.check(miss == [], 'no threshold is left to a default of the '
              f'kernel; missing: {miss[:3]}')


def check_tables(ctx, res):
    mk = read_markers(res['out'])
    ng = len(GENES)
    leaves = sorted(LEAVES)
    pairs = list(itertools.combinations(leaves, 2))
    ctx.check(mk['genes'] == GENES and mk['n_pairs'] == len(pairs),
              'marker file carries the gene names and pair count of the '
              'statistics file')
    for i, (a, b) in enumerate(pairs):
        ctx.check(mk['pair_to_idx']['cluster'][a][b] == i,
                  'pair index table addresses the leaf pairs by name')
    up, down = by_pair_sets(mk, 'up'), by_pair_sets(mk, 'down')
    gup, gdown = by_gene_sets(mk, 'up'), by_gene_sets(mk, 'down')
    for d, bp, bg in (('up', up, gup), ('down', down, gdown)):
        ok = all(sorted(set(x)) == list(x) for x in bp) and \
            all(sorted(set(x)) == list(x) for x in bg)
        ctx.check(ok, f'{d}: indices sorted and unique in every slice')
        t = {(p, g) for p in range(len(pairs)) for g in bp[p]}
        t2 = {(p, g) for g in range(ng) for p in bg[g]}
        ctx.check(t == t2, f'{d}: pair-major and gene-major tables are '
                  'exact transposes')
    gl = res['gene_list']
    for i, (a, b) in enumerate(pairs):
        both = set(up[i]) & set(down[i])
        ctx.check(not both, 'no gene both up and down for a pair')
        marked = set(up[i]) | set(down[i])
        if res['sizes'][a] < 2 or res['sizes'][b] < 2:
            ctx.check(not marked, 'a cluster with fewer than two cells '
                      'has no markers')
            continue
        if gl is not None:
            ctx.check(all(GENES[g] in gl for g in marked),
                      'markers belong to the gene list')
        ma = res['prof'][a].mean(axis=0)
        mb = res['prof'][b].mean(axis=0)
        for g in marked:
            isup = g in up[i]
            ctx.check(isup == bool(mb[g] > ma[g]),
                      'direction == sign of the difference of means')
        if res.get('hair'):
            ha, hb, hg = res['hair']
            lf_th = res['thresholds']['log2_fold_th']
            if (a, b) == (ha, hb):
                ctx.check(hg not in marked, 'a gene missing a strict '
                          'threshold by a hair is not recorded when the '
                          'pair has its n_valid strict markers')
        elif res.get('thresholds') and any(
                v != THRESHOLDS[t][0] for t, v in res['thresholds'].items()):
            continue          # the data oracle knows the defaults only
        else:
            lf_th = 1.0
        want = oracle_valid(res['prof'], a, b, lf_th=lf_th)
        for g in range(ng):
            if want[g] is None or (gl is not None and GENES[g] not in gl):
                continue
            if want[g]:
                ctx.check(g in marked, 'a gene passing the strict '
                          'thresholds is recorded')
            elif res['exact'] and res.get('route', 'direct') == 'direct':
                ctx.check(g not in marked, 'exact penetrance: nothing else '
                          'is recorded')
    if 'ref' in res:
        ctx.check(res.get('raised1') is None, 'single-worker run succeeds')
        if res.get('raised1') is None:
            m1 = read_markers(res['ref'])
            same = all(np.array_equal(mk[k], m1[k]) for k in mk
                       if k.startswith('sparse'))
            ctx.check(same, 'tables do not depend on the worker count nor '
                      'on what an earlier run left at the output location')
    left = os.listdir(os.path.join(res['root'], 'scratch'))
    ctx.check(left == [], f'scratch directory empty afterwards: {left[:3]}')
