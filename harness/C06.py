"""C06 — a cell's mapping depends only on its own expression vector
(bootstrap factor 1).  Real functions: election.run_type_assignment,
_run_type_assignment, choose_node, aggregate_votes, tally_votes,
distance_utils.correlation_nearest_neighbors (+ kernels),
cell_by_gene.utils.convert_to_cpm."""
import numpy as np

from symx import core
from symx.core import And, Or, Not, Implies, Sum
from harness.common import (Harness, patch, install_np, shimmed, arr, reals,
                            set_mode)
from harness import levelloop as LL
from harness import C02, C03

import cell_type_mapper.type_assignment.election as el
import cell_type_mapper.utils.distance_utils as du
import cell_type_mapper.cell_by_gene.utils as cbgu


def same(ctx, a, b):
    if core.is_sym(a) or core.is_sym(b):
        if core.same_term(a, b):
            return True
        return ctx.eq(a, b)
    if isinstance(a, (list, tuple)):
        return len(a) == len(b) and all(same(ctx, x, y)
                                        for x, y in zip(a, b))
    if isinstance(a, float):
        return ctx.eq(a, b)
    return a == b


def same_record(ctx, r1, r2, levels, label):
    for lv in levels:
        a, b = r1[lv], r2[lv]
        ctx.check(set(a) == set(b), f'{label}: same fields')
        for k in a:
            if k in b:
                va, vb = a[k], b[k]
                if isinstance(va, (list, tuple, np.ndarray)):
                    ok = len(va) == len(vb)
                    ctx.check(ok, f'{label}: {k} same length')
                    if ok:
                        for x, y in zip(va, vb):
                            ctx.check(same(ctx, x, y),
                                      f'{label}: {k} identical')
                else:
                    ctx.check(same(ctx, va, vb), f'{label}: {k} identical')


def h_relational(ctx, case):
    """the record of cell A is the same whether A is mapped alone, with B
    before or after it, or duplicated"""
    levels, names, parents, data = LL.build_tree(ctx, case)
    tree, err = LL.validator_accepts(data)
    if tree is None:
        raise core.PathAbort('invalid')
    IT = ctx.int('iterations', 1, 1000000)
    nas = ctx.choice('n_assignments-1', 2) + 1
    runs = {'AB': [0, 1], 'A': [0], 'BA': [1, 0], 'AAB': [0, 0, 1]}
    oracle = None
    recs = {}
    try:
        for name, tags in runs.items():
            oracle, result = LL.run_levels(ctx, case, tree, levels, names,
                                           parents, len(tags), nas, IT,
                                           tags=tags, oracle=oracle)
            recs[name] = (tags, result)
    except Exception as e:
        ctx.exception(e)
        return 'EXC ' + type(e).__name__
    ctx.reach('mapped')
    base = recs['A'][1][0]
    for name, (tags, result) in recs.items():
        ctx.check(len(result) == len(tags), 'one record per row')
        for t, r in zip(tags, result):
            if t == 0:
                same_record(ctx, base, r, levels,
                            f'cell A alone vs in {name}')
    b1 = recs['AB'][1][1]
    same_record(ctx, b1, recs['BA'][1][0], levels, 'cell B in AB vs BA')
    same_record(ctx, b1, recs['AAB'][1][2], levels, 'cell B in AB vs AAB')
    return 'ok'


def setup_kernel(case, mode):
    set_mode(mode)
    if shimmed(mode):
        install_np(du, cbgu, el)
    # a blocking size (any integer literal >= 1000) inside the neighbour
    # kernels is also run as 1, 2 and 3: with it the four-row batch below
    # spans several blocks (nothing to do on a tree without such a literal)
    from harness.common import generalise_large_literals
    generalise_large_literals(du)


def h_per_row(ctx, case):
    """the per-row assumption of the relational harness, on the real
    kernels: nearest-neighbour result and CPM normalisation of a row do
    not depend on which other rows are present"""
    ng, nr = case['genes'], case['refs']
    a = reals(ctx, 'a', (1, ng), 0, 8)
    b = reals(ctx, 'b', (1, ng), 0, 8)
    r = reals(ctx, 'r', (nr, ng), 0, 8)
    R = arr(ctx, r)
    try:
        i1, v1 = du.correlation_nearest_neighbors(
            baseline_array=R, query_array=arr(ctx, a),
            return_correlation=True)
        i2, v2 = du.correlation_nearest_neighbors(
            baseline_array=R, query_array=arr(ctx, np.vstack([a, b])),
            return_correlation=True)
        i3, v3 = du.correlation_nearest_neighbors(
            baseline_array=R, query_array=arr(ctx, np.vstack([b, a, a])),
            return_correlation=True)
        i4, v4 = du.correlation_nearest_neighbors(
            baseline_array=R, query_array=arr(ctx, np.vstack([b, a, b, a])),
            return_correlation=True)
        c1 = cbgu.convert_to_cpm(arr(ctx, a))
        c2 = cbgu.convert_to_cpm(arr(ctx, np.vstack([b, a])))
    except Exception as e:
        ctx.exception(e)
        return 'EXC ' + type(e).__name__
    ctx.reach('computed')
    ctx.check(int(i1[0]) == int(i2[0]) == int(i3[1]) == int(i3[2])
              == int(i4[1]) == int(i4[3]),
              'nearest neighbour of a row is independent of the other rows')
    ctx.check(And(same(ctx, v1[0], v2[0]), same(ctx, v1[0], v3[1]),
                  same(ctx, v1[0], v3[2]), same(ctx, v1[0], v4[1]),
                  same(ctx, v1[0], v4[3])),
              'winning correlation of a row is independent of the other '
              'rows')
    for j in range(ng):
        ctx.check(same(ctx, c1[0, j], c2[1, j]),
                  'CPM of a row is independent of the other rows')
    return 'ok'


def h_factor_one(ctx, case):
    """bootstrap factor 1: every iteration uses all markers, whatever the
    generator draws => the result cannot depend on the per-chunk seed"""
    nm, iters = case['markers'], case['iterations']
    q = reals(ctx, 'q', (1, nm))
    r = reals(ctx, 'r', (2, nm))
    stub = C02.NNStub(ctx, 2)
    patch(el.distance_utils, 'correlation_nearest_neighbors', stub)
    if ctx.mode == 'sym':
        from symx.npshim import RngModel
        rng = RngModel(tag='rng0')
    else:
        rng = C02.ListRng(ctx)
    try:
        el.tally_votes(arr(ctx, q), arr(ctx, r), 1.0, iters, rng)
    except Exception as e:
        ctx.exception(e)
        return 'EXC ' + type(e).__name__
    ctx.reach('tallied')
    for it, (B, Qs, nb, cr) in enumerate(stub.calls):
        ok = Qs.shape == (1, nm) and B.shape == (2, nm)
        if ok:
            for j in range(nm):
                ok = ok and C02._same(ctx, Qs[0, j], q[0, j]) and \
                    C02._same(ctx, B[0, j], r[0, j]) and \
                    C02._same(ctx, B[1, j], r[1, j])
        ctx.check(ok, 'with factor 1 every iteration sees all markers in '
                  'the same order for every draw of the generator')
    return 'ok'


def h_row_selection(ctx, case):
    """cells are selected per parent by row index and written back by
    the same index: with several cells every record must be the one the
    oracle computed for that very cell (gaps in the selected rows)"""
    levels, names, parents, data = LL.build_tree(ctx, case)
    tree, err = LL.validator_accepts(data)
    if tree is None:
        raise core.PathAbort('invalid')
    IT = ctx.int('iterations', 1, 1000000)
    n = case['cells']
    try:
        oracle, result = LL.run_levels(ctx, case, tree, levels, names,
                                       parents, n, 1, IT)
    except Exception as e:
        ctx.exception(e)
        return 'EXC ' + type(e).__name__
    ctx.reach('mapped')
    ctx.check(len(result) == n, 'one record per cell')
    for tag, cell in enumerate(result):
        parent_node = None
        for k, lv in enumerate(levels):
            a = str(cell[lv]['assignment'])
            sibs = LL._children_in(oracle, levels, levels, parent_node, lv)
            if len(sibs) > 1:
                pk = 'root' if parent_node is None else parent_node[1]
                lvs = oracle.leaves_under(k, a)
                if any((tag, pk, lf) not in oracle.v for lf in lvs):
                    ctx.check(False, 'the record of a cell was computed '
                              'from the votes of that cell')
                else:
                    av = Sum([oracle.v[(tag, pk, lf)] for lf in lvs])
                    ctx.check(ctx.eq(cell[lv]['bootstrapping_probability']
                                     * IT, av),
                              'the record of a cell was computed from the '
                              'votes of that cell')
            parent_node = (lv, a)
    return 'ok'


HARNESSES = [
    Harness('row_selection_by_index', h_row_selection, setup=LL.setup,
            cases=[{'sizes': [2, 3], 'cells': 3},
                   {'sizes': [2, 4], 'cells': 2,
                    'parents': [[0, 0, 1, 1]]}],
            thorough_cases=[{'sizes': [2, 3], 'cells': 3},
                            {'sizes': [2, 4], 'cells': 3},
                            {'sizes': [2, 3], 'cells': 4},
                            {'sizes': [2, 2], 'cells': 5}],
            funcs=C03.FUNCS, stubs=C03.STUBS, assumptions=C03.ASSUME,
            bounds='4 (5) cells on two-level trees: every split of the '
                   'cells between the parents, including non-contiguous '
                   'row sets with gaps',
            expect_reach=['mapped'], split=200),
    Harness('relational_level_loop', h_relational, setup=LL.setup,
            cases=[{'sizes': s} for s in ([2], [3], [1, 2], [2, 2])],
            thorough_cases=[{'sizes': s} for s in
                            ([2], [3], [1, 2], [2, 3], [1, 2, 3],
                             [2, 2, 3])],
            funcs=C03.FUNCS, stubs=[
                'assemble_query_data + tally_votes -> arbitrary votes that '
                'are a function of (the row content tag, the parent, the '
                'leaf) only; this per-row assumption is discharged for '
                'the real kernels by per_row_kernels below'],
            assumptions=C03.ASSUME,
            bounds='trees as listed; row sets [A,B], [A], [B,A], [A,A,B]; '
                   'iterations symbolic; 0-1 runners-up',
            outside='floating-point rounding of BLAS on different batch '
                    'shapes',
            expect_reach=['mapped'], split=48),
    Harness('per_row_kernels', h_per_row, setup=setup_kernel,
            cases=[{'genes': 2, 'refs': 2}, {'genes': 3, 'refs': 1}],
            thorough_cases=[{'genes': 2, 'refs': 2}, {'genes': 3, 'refs': 2}],
            split=16,
            funcs=['distance_utils.correlation_nearest_neighbors',
                   'correlation_dot', '_subtract_mean_and_normalize_cpu',
                   'cell_by_gene.utils.convert_to_cpm'],
            bounds='2-3 genes, 2-3 reference rows, rows A,B symbolic in '
                   '[0,8]; batches [A], [A,B], [B,A,A], [B,A,B,A]; integer literals >= 1000 '
                   'in the kernels also run as 1, 2, 3 (blocking sizes)',
            expect_reach=['computed'], selftest=20, query_timeout_ms=60000),
    Harness('factor_one_ignores_generator', h_factor_one,
            setup=C02.setup_tally,
            cases=[{'markers': 3, 'iterations': 2},
                   {'markers': 4, 'iterations': 1}],
            funcs=['election.tally_votes'],
            stubs=['rng.choice -> symbolic duplicate-free sample',
                   'correlation_nearest_neighbors -> recorder'],
            bounds='3-4 markers, 1-2 iterations, every draw',
            expect_reach=['tallied'], selftest=10, split=16),
]
