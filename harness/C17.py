"""C17 — flattening or dropping a level equals mapping on the reduced
taxonomy.  Real functions: TaxonomyTree._drop_level / flatten /
backfill_assignments, election.run_type_assignment (level loop),
marker_cache_v2.create_marker_cache_from_specified_markers /
validate_marker_lookup / serialize_markers."""
import copy
import warnings

from symx import core
from harness.common import (Harness, install_h5, shimmed, set_mode, Env,
                            level_names, tree_data, symbolic_parents)
from harness import levelloop as LL
from harness import C03, C06, C08
from harness.C10 import Oracle

import cell_type_mapper.type_assignment.marker_cache_v2 as MC
import cell_type_mapper.type_assignment.utils as TAU
from cell_type_mapper.taxonomy.taxonomy_tree import TaxonomyTree


def reduced_data(levels, names, orc, keep):
    """taxonomy dict over the levels `keep`, built by the harness from
    its own child->parent maps (never from repository code)"""
    d = {'hierarchy': list(keep)}
    last = len(levels) - 1
    for a, b in zip(keep[:-1], keep[1:]):
        la, lb = levels.index(a), levels.index(b)
        d[a] = {n: [] for n in names[la]}
        for ch in names[lb]:
            d[a][orc.ancestor(lb, ch, la)].append(ch)
    d[keep[-1]] = {n: [f"cell_{n}"] for n in names[last]}
    return d


def same_tree_api(ctx, a, b, label):
    """every query the pipeline asks of a taxonomy gives the same answer
    on both trees (cached lookup tables included)"""
    def q(t):
        out = {'hierarchy': list(t.hierarchy), 'leaf_level': t.leaf_level,
               'all_leaves': sorted(t.all_leaves),
               'all_parents': sorted(map(str, t.all_parents)),
               'siblings': sorted(map(tuple, t.siblings)),
               'as_leaves': {lv: {n: sorted(v) for n, v in d.items()}
                             for lv, d in t.as_leaves.items()}}
        for lv in t.hierarchy:
            for n in t.nodes_at_level(lv):
                out[('parents', lv, n)] = t.parents(lv, n)
                if lv != t.leaf_level:
                    out[('children', lv, n)] = sorted(t.children(lv, n))
        out[('children', None)] = sorted(t.children(None, None))
        for p in t.all_parents:
            out[('pairs', p)] = sorted(map(tuple, t.leaves_to_compare(p)))
        return out
    try:
        qa, qb = q(a), q(b)
    except Exception as e:
        ctx.exception(e, f'{label}: {type(e).__name__}: {str(e)[:80]}')
        return
    diff = sorted(str(k) for k in set(qa) | set(qb)
                  if qa.get(k) != qb.get(k))
    ctx.check(diff == [], f'{label}; differing queries: {diff[:3]}')


def h_equivalence(ctx, case):
    levels, names, parents, data = LL.build_tree(ctx, case)
    last = len(levels) - 1
    for n in names[last]:
        data[levels[last]][n] = [f"cell_{n}"]
    if case.get('alias') and len(set(names[last])) != len(names[last]):
        raise core.PathAbort('alias collides within a level')
    orc = Oracle(levels, names, parents)
    tree, err = LL.validator_accepts(data)
    if tree is None:
        raise core.PathAbort('invalid')
    which = ctx.choice('reduction', len(levels))   # 0 flatten, k drop k-1
    try:
        if which == 0:
            red = tree.flatten()
            keep = [levels[-1]]
        else:
            red = tree.drop_level(levels[which - 1])
            keep = [x for x in levels if x != levels[which - 1]]
        indep = TaxonomyTree(data=reduced_data(levels, names, orc, keep))
    except Exception as e:
        ctx.exception(e)
        return 'EXC ' + type(e).__name__
    ctx.check(red.is_equal_to(indep) and red.hierarchy == keep,
              'reduced tree == taxonomy that never had the level')
    same_tree_api(ctx, red, indep, 'the reduced tree answers every '
                  'taxonomy query like the taxonomy that never had the '
                  'level')
    IT = ctx.int('iterations', 1, 1000000)
    nas = ctx.choice('n_assignments-1', 2) + 1
    try:
        oracle, r_red = LL.run_levels(ctx, case, red, levels, names,
                                      parents, 1, nas, IT)
        oracle, r_ind = LL.run_levels(ctx, case, indep, levels, names,
                                      parents, 1, nas, IT, oracle=oracle)
    except Exception as e:
        ctx.exception(e)
        return 'EXC ' + type(e).__name__
    ctx.reach('mapped twice')
    C06.same_record(ctx, r_red[0], r_ind[0], keep,
                    'reduced run vs run on the never-had-it taxonomy')
    out = tree.backfill_assignments(copy.deepcopy(r_red))
    for li, lv in enumerate(levels):
        ctx.check(lv in out[0], 'every level of the stored taxonomy is '
                  'reported')
        if lv in keep or lv not in out[0]:
            continue
        below = [x for x in levels[li + 1:] if x in keep][0]
        want = orc.ancestor(levels.index(below),
                            str(r_red[0][below]['assignment']), li)
        ctx.check(str(out[0][lv]['assignment']) == want and
                  out[0][lv].get('directly_assigned') is False,
                  'removed level == ancestor of the finer assignment, '
                  'flagged as not directly assigned')
    return 'ok'


def setup_markers(case, mode):
    set_mode(mode)
    warnings.simplefilter('ignore')
    if shimmed(mode):
        install_h5(MC, TAU)


def h_markers_of_removed_parents(ctx, case):
    """marker groups of parents that the reduced tree no longer has are
    never consulted"""
    sizes = case['sizes']
    ng = case['genes']
    levels, names = level_names(sizes)
    parents = symbolic_parents(ctx, sizes, onto=True)
    data = tree_data(levels, names, parents)
    orc = Oracle(levels, names, parents)
    tree = TaxonomyTree(data=data)
    di = ctx.choice('drop', len(levels) - 1)
    red = tree.drop_level(levels[di])
    ref = C08.REF_GENES[:ng]
    query = [ref[i] for i in ctx.subset('query_has', ng)]
    all_par = [None] + [(levels[li], n) for li in range(len(levels) - 1)
                        for n in names[li]]
    table = {}
    for p in all_par:
        k = C08.parent_key(p)
        if ctx.flag(f"listed[{k}]"):
            table[k] = [ref[i] for i in ctx.subset(f"markers[{k}]", ng)]
    pruned = {k: v for k, v in table.items()
              if not k.startswith(levels[di] + '/')}
    env = Env(ctx)
    res = []
    for tag, tb in (('full', table), ('pruned', pruned)):
        cache = env.path(f'cache_{tag}.h5')
        try:
            MC.create_marker_cache_from_specified_markers(
                marker_lookup=copy.deepcopy(tb),
                reference_gene_names=list(ref),
                query_gene_names=list(query), output_cache_path=cache,
                taxonomy_tree=red, min_markers=1)
            ok, msg = TAU.reconcile_taxonomy_and_markers(red, cache)
            if not ok:
                res.append(('error', 'cache does not fit the taxonomy'))
            else:
                res.append(('ok', MC.serialize_markers(cache, red)))
        except RuntimeError as e:
            res.append(('error', str(e)[:60]))
        except Exception as e:
            ctx.exception(e)
            return 'EXC ' + type(e).__name__
    ctx.reach('compared')
    ctx.check(res[0][0] == res[1][0], 'same outcome with and without the '
              'marker lists of the removed parents')
    if res[0][0] == 'ok' and res[1][0] == 'ok':
        ctx.reach('both ok')
        ctx.check(res[0][1] == res[1][1], 'same markers used with and '
                  'without the lists of the removed parents')
    return res[0][0]


def _sc_setup(case, mode):
    from harness import stagechecks as SC
    SC.setup(case, mode)


def h_run_mapping_reduced(ctx, case):
    """through the real run_mapping on real files: dropping a level ==
    mapping against a reference whose taxonomy never had it; flattening
    == a one-level taxonomy with the union of all marker lists; dropping
    an unknown level changes nothing.  Marker tables are thinned so that
    the ancestor fallback is exercised."""
    import json
    from harness import stage as ST
    from harness import stagechecks as SC
    inp = SC.inputs(case)
    kind = ctx.choice('reduction', 4)   # drop class, drop subclass, flatten, unknown
    # marker table: each non-root entry kept, emptied or removed
    table = {}
    for k, v in inp.marker_table.items():
        if k == 'None' or (k in ('class/clsA', 'subclass/subB')
                           and not case.get('all_entries')):
            table[k] = list(v)
            continue
        c = ctx.choice(f"table[{k}]", 3)
        if c == 0:
            table[k] = list(v)
        elif c == 1:
            table[k] = ['g6']           # in the reference, not in the query
    mk = inp.markers_file(table, 'thin')
    min_markers = case.get('min_markers', 2)
    common = dict(bootstrap_iteration=5, min_markers=min_markers,
                  bootstrap_factor=case.get('factor', 0.5))
    w1, w2 = ST.new_work('a'), ST.new_work('b')
    cfg1 = ST.make_config(inp, w1, **common)
    cfg1['query_markers'] = {'serialized_lookup': mk}
    cfg2 = ST.make_config(inp, w2, **common)
    if kind in (0, 1):
        lv = ['class', 'subclass'][kind]
        cfg1['drop_level'] = lv
        red = ST.tree_data(True, drop=lv, slash=case.get('slash', False))
        cfg2['precomputed_stats'] = {'path': inp.stats_for(red, f'no_{lv}')}
        pruned = {k: v for k, v in table.items()
                  if not k.startswith(lv + '/')}
        cfg2['query_markers'] = {'serialized_lookup':
                                 inp.markers_file(pruned, 'pruned')}
        keep = [x for x in ST.LEVELS if x != lv]
    elif kind == 2:
        cfg1['flatten'] = True
        # flattening wins over a drop_level given at the same time: the
        # result is still the one-level mapping with the union of *all*
        # marker lists
        also = [None, 'class', 'subclass', 'not_a_level'][
            ctx.choice('drop_level_given_with_flatten', 4)]
        if also is not None:
            cfg1['drop_level'] = also
        red = ST.tree_data(True, flat=True, slash=case.get('slash', False))
        cfg2['precomputed_stats'] = {'path': inp.stats_for(red, 'flat')}
        union = sorted({g for v in table.values() for g in v})
        cfg2['query_markers'] = {'serialized_lookup':
                                 inp.markers_file({'None': union}, 'union')}
        keep = ['cluster']
    else:
        # not a level: unrelated, or a prefix / extension of a level name
        unk = ['not_a_level', 'sub', 'cl', 'class/', 'subclas']
        cfg1['drop_level'] = unk[ctx.choice('unknown_level', len(unk))]
        cfg2['query_markers'] = {'serialized_lookup': mk}
        keep = list(ST.LEVELS)
    r1, r2 = ST.run(cfg1), ST.run(cfg2)
    e1, e2 = r1['raised'], r2['raised']
    ctx.check((e1 is None) == (e2 is None),
              f'both runs succeed or both fail: {str(e1)[:60]} / '
              f'{str(e2)[:60]}')
    if e1 is None and e2 is None:
        ctx.reach('both mapped')
        a, b = r1['json']['results'], r2['json']['results']
        for x, y in zip(a, b):
            ctx.check(x['cell_id'] == y['cell_id'], 'same cells')
            for lv in keep:
                ctx.check(x[lv] == y[lv], f'level {lv}: result with the '
                          'reduction == result on the reduced taxonomy')
            for li, lv in enumerate(ST.LEVELS):
                if lv in keep:
                    continue
                below = [z for z in ST.LEVELS[li + 1:] if z in keep][0]
                anc = inp.tree.parents(below, x[below]['assignment'])[lv]
                ctx.check(x[lv]['assignment'] == anc and
                          x[lv]['directly_assigned'] is False,
                          'removed level == ancestor of the finer '
                          'assignment, flagged as inferred')
        ctx.check(r1['json']['marker_genes'] == r2['json']['marker_genes']
                  if kind != 3 else True,
                  'same markers used with the reduction and on the reduced '
                  'taxonomy')
    ST.drop_work(w1)
    ST.drop_work(w2)
    return 'ok' if e1 is None else 'error'


def h_run_mapping_two_level(ctx, case):
    """the same equivalence when the stored taxonomy has only two levels
    (the third one was never there): dropping its one non-leaf level ==
    mapping against the one-level reference with the root's markers;
    dropping an unknown level changes nothing"""
    from harness import stage as ST
    from harness import stagechecks as SC
    inp = SC.inputs(case)
    pre = ['class', 'subclass'][ctx.choice('level_never_there', 2)]
    other = 'subclass' if pre == 'class' else 'class'
    two = ST.tree_data(True, drop=pre)
    table = {}
    for k, v in inp.marker_table.items():
        if k.startswith(pre + '/'):
            continue
        if k == 'None':
            table[k] = list(v)
            continue
        c = ctx.choice(f"table[{k}]", 3)
        if c == 0:
            table[k] = list(v)
        elif c == 1:
            table[k] = ['g6']           # in the reference, not in the query
    kind = ctx.choice('drop', 2)        # the non-leaf level / not a level
    common = dict(bootstrap_iteration=5, min_markers=2,
                  bootstrap_factor=0.5)
    w1, w2 = ST.new_work('a'), ST.new_work('b')
    cfg1 = ST.make_config(inp, w1, **common)
    cfg1['precomputed_stats'] = {'path': inp.stats_for(two, f'two_{other}')}
    cfg1['query_markers'] = {'serialized_lookup':
                             inp.markers_file(table, 'two')}
    cfg2 = ST.make_config(inp, w2, **common)
    if kind == 0:
        cfg1['drop_level'] = other
        flat = ST.tree_data(True, flat=True)
        cfg2['precomputed_stats'] = {'path': inp.stats_for(flat, 'flat')}
        cfg2['query_markers'] = {'serialized_lookup': inp.markers_file(
            {'None': table['None']}, 'root_only')}
        keep = ['cluster']
    else:
        cfg1['drop_level'] = pre        # a level this reference never had
        cfg2['precomputed_stats'] = dict(cfg1['precomputed_stats'])
        cfg2['query_markers'] = dict(cfg1['query_markers'])
        keep = [other, 'cluster']
    r1, r2 = ST.run(cfg1), ST.run(cfg2)
    e1, e2 = r1['raised'], r2['raised']
    ctx.check((e1 is None) == (e2 is None),
              f'both runs succeed or both fail: {str(e1)[:60]} / '
              f'{str(e2)[:60]}')
    if e1 is None and e2 is None:
        ctx.reach('both mapped')
        import json
        tree_dict = json.loads(two.to_str())
        parent_of = {ch: par for par, chn in tree_dict[other].items()
                     for ch in chn}
        for x, y in zip(r1['json']['results'], r2['json']['results']):
            ctx.check(x['cell_id'] == y['cell_id'], 'same cells')
            for lv in keep:
                ctx.check(x[lv] == y[lv], f'level {lv}: result with the '
                          'reduction == result on the reduced taxonomy '
                          '(two-level reference)')
            if other not in keep:
                ctx.check(x[other]['assignment'] ==
                          parent_of[x['cluster']['assignment']] and
                          x[other]['directly_assigned'] is False,
                          'removed level == ancestor of the finer '
                          'assignment, flagged as inferred (two-level '
                          'reference)')
        if kind == 0:
            ctx.check(r1['json']['marker_genes'] ==
                      r2['json']['marker_genes'],
                      'same markers used with the reduction and on the '
                      'reduced taxonomy (two-level reference)')
    ST.drop_work(w1)
    ST.drop_work(w2)
    return 'ok' if e1 is None else 'error'


def _rm_setup(case, mode):
    from harness import refmarkers as RM
    RM.setup(case, mode)


def h_marker_cli_unknown_level(ctx, case):
    """the reference-marker command line runner with a drop_level the
    taxonomy does not contain: nothing changes (same tables as without
    the option)"""
    from harness import refmarkers as RM
    res = RM.run_cli(ctx, case, faults=False)
    if res['prior'] != 'nothing' and not res['clobber']:
        return 'refused'
    if res['raised'] is not None:
        ctx.exception(res['raised'], f"drop_level={res['drop_level']!r}: "
                      + str(res['raised'])[:90])
        return 'EXC'
    ctx.reach('ran')
    # the oracle of check_tables is the one of the full taxonomy
    RM.check_tables(ctx, res)
    return 'ok'


HARNESSES = [
    Harness('reference_marker_cli_unknown_level', h_marker_cli_unknown_level,
            setup=_rm_setup,
            cases=[{'K': 0, 'drop_levels': [None, 'not_a_level', 'clas']}],
            funcs=['cli.reference_markers.ReferenceMarkerRunner.run'],
            stubs=['argschema parsing -> fully specified argument dict',
                   'multiprocessing -> scheduler model'],
            bounds='drop_level absent / a name that is not a level / a '
                   'prefix of a level name; 1-3 workers; used or unused '
                   'output directory',
            expect_reach=['ran']),
    Harness('reduction_equivalence', h_equivalence, setup=LL.setup,
            cases=[{'sizes': s} for s in ([2, 3], [1, 2, 3], [2, 2, 3])]
            + [{'sizes': [2, 2, 2], 'alias': True}],
            thorough_cases=[{'sizes': s} for s in
                            ([2, 3], [1, 2, 3], [2, 2, 3], [2, 3, 4],
                             [2, 2, 2, 3], [1, 2, 2, 3])]
            + [{'sizes': [2, 2, 3], 'alias': True},
               {'sizes': [1, 2, 2], 'alias': True}],
            funcs=['TaxonomyTree._drop_level', 'flatten',
                   'backfill_assignments'] + C03.FUNCS,
            stubs=C03.STUBS, assumptions=C03.ASSUME,
            bounds='every child->parent map of the listed sizes; flatten '
                   'and drop of every non-leaf level; both runs share one '
                   'vote oracle keyed by (cell, parent, leaf)',
            outside='the _run_mapping sequence itself (mapping-stage '
                    'harness)', expect_reach=['mapped twice'], split=48),
    Harness('run_mapping_reduced_taxonomy', h_run_mapping_reduced,
            setup=_sc_setup, cases=[{}, {'slash': True}],
            thorough_cases=[{'all_entries': True},
                            {'min_markers': 1, 'factor': 1.0},
                            {'min_markers': 3}],
            funcs=['from_specified_markers.run_mapping', '_run_mapping',
                   'TaxonomyTree.drop_level/flatten/backfill_assignments',
                   'marker_cache_v2.create_marker_cache_from_specified_'
                   'markers', 'validate_marker_lookup',
                   'election_runner.run_type_assignment_on_h5ad'],
            stubs=['multiprocessing -> model (workers inline)'],
            bounds='fixed 3-level taxonomy and query (real files); '
                   'reduction: drop class / drop subclass / flatten / drop '
                   'of an unknown level; every thinning of the marker '
                   'table (each non-root entry kept / useless / absent); '
                   'min_markers 1-2; bootstrap factor 0.5 or 1 with a '
                   'common seed',
            expect_reach=['both mapped'], split=32),
    Harness('run_mapping_two_level_reference', h_run_mapping_two_level,
            setup=_sc_setup, cases=[{}],
            funcs=['from_specified_markers.run_mapping', '_run_mapping',
                   'TaxonomyTree.drop_level/backfill_assignments',
                   'marker_cache_v2.create_marker_cache_from_specified_'
                   'markers', 'election_runner.run_type_assignment_on_h5ad'],
            stubs=['multiprocessing -> model (workers inline)'],
            bounds='the fixed taxonomy stored with two levels (class or '
                   'subclass never there); drop of its one non-leaf level '
                   '/ of the level it never had; every thinning of the '
                   'marker table',
            expect_reach=['both mapped'], split=16),
    Harness('markers_of_removed_parents', h_markers_of_removed_parents,
            setup=setup_markers,
            cases=[{'sizes': [2, 3], 'genes': 2},
                   {'sizes': [1, 2, 3], 'genes': 1}],
            thorough_cases=[{'sizes': [2, 3], 'genes': 2},
                            {'sizes': [1, 2, 3], 'genes': 2},
                            {'sizes': [2, 2, 3], 'genes': 1}],
            funcs=['marker_cache_v2.create_marker_cache_from_specified_'
                   'markers', 'validate_marker_lookup', 'serialize_markers',
                   'TaxonomyTree.drop_level'],
            stubs=['h5py -> model'], classify=C08.classify,
            bounds='every onto tree of the listed sizes, every droppable '
                   'level, every marker table over 1-2 genes (parents '
                   'absent or any subset), every query subset',
            expect_reach=['compared', 'both ok'], split=48),
]
