"""C17 — flattening or dropping a level equals mapping on the reduced
taxonomy.  Real functions: TaxonomyTree._drop_level / flatten /
backfill_assignments, election.run_type_assignment (level loop),
marker_cache_v2.create_marker_cache_from_specified_markers /
validate_marker_lookup / serialize_markers."""
import copy
import warnings

from symx import core
from harness.common import (Harness, install_h5, shimmed, set_mode, Env,
                            level_names, tree_data, symbolic_parents)
from harness import levelloop as LL
from harness import C03, C06, C08
from harness.C10 import Oracle

import cell_type_mapper.type_assignment.marker_cache_v2 as MC
import cell_type_mapper.type_assignment.utils as TAU
from cell_type_mapper.taxonomy.taxonomy_tree import TaxonomyTree


def reduced_data(levels, names, orc, keep):
    """taxonomy dict over the levels `keep`, built by the harness from
    its own child->parent maps (never from repository code)"""
    d = {'hierarchy': list(keep)}
    last = len(levels) - 1
    for a, b in zip(keep[:-1], keep[1:]):
        la, lb = levels.index(a), levels.index(b)
        d[a] = {n: [] for n in names[la]}
        for ch in names[lb]:
            d[a][orc.ancestor(lb, ch, la)].append(ch)
    d[keep[-1]] = {n: [f"cell_{n}"] for n in names[last]}
    return d


def h_equivalence(ctx, case):
    levels, names, parents, data = LL.build_tree(ctx, case)
    last = len(levels) - 1
    for n in names[last]:
        data[levels[last]][n] = [f"cell_{n}"]
    if case.get('alias') and len(set(names[last])) != len(names[last]):
        raise core.PathAbort('alias collides within a level')
    orc = Oracle(levels, names, parents)
    tree, err = LL.validator_accepts(data)
    if tree is None:
        raise core.PathAbort('invalid')
    which = ctx.choice('reduction', len(levels))   # 0 flatten, k drop k-1
    try:
        if which == 0:
            red = tree.flatten()
            keep = [levels[-1]]
        else:
            red = tree.drop_level(levels[which - 1])
            keep = [x for x in levels if x != levels[which - 1]]
        indep = TaxonomyTree(data=reduced_data(levels, names, orc, keep))
    except Exception as e:
        ctx.exception(e)
        return 'EXC ' + type(e).__name__
    ctx.check(red.is_equal_to(indep) and red.hierarchy == keep,
              'reduced tree == taxonomy that never had the level')
    IT = ctx.int('iterations', 1, 1000000)
    nas = ctx.choice('n_assignments-1', 2) + 1
    try:
        oracle, r_red = LL.run_levels(ctx, case, red, levels, names,
                                      parents, 1, nas, IT)
        oracle, r_ind = LL.run_levels(ctx, case, indep, levels, names,
                                      parents, 1, nas, IT, oracle=oracle)
    except Exception as e:
        ctx.exception(e)
        return 'EXC ' + type(e).__name__
    ctx.reach('mapped twice')
    C06.same_record(ctx, r_red[0], r_ind[0], keep,
                    'reduced run vs run on the never-had-it taxonomy')
    out = tree.backfill_assignments(copy.deepcopy(r_red))
    for li, lv in enumerate(levels):
        ctx.check(lv in out[0], 'every level of the stored taxonomy is '
                  'reported')
        if lv in keep or lv not in out[0]:
            continue
        below = [x for x in levels[li + 1:] if x in keep][0]
        want = orc.ancestor(levels.index(below),
                            str(r_red[0][below]['assignment']), li)
        ctx.check(str(out[0][lv]['assignment']) == want and
                  out[0][lv].get('directly_assigned') is False,
                  'removed level == ancestor of the finer assignment, '
                  'flagged as not directly assigned')
    return 'ok'


def setup_markers(case, mode):
    set_mode(mode)
    warnings.simplefilter('ignore')
    if shimmed(mode):
        install_h5(MC, TAU)


def h_markers_of_removed_parents(ctx, case):
    """marker groups of parents that the reduced tree no longer has are
    never consulted"""
    sizes = case['sizes']
    ng = case['genes']
    levels, names = level_names(sizes)
    parents = symbolic_parents(ctx, sizes, onto=True)
    data = tree_data(levels, names, parents)
    orc = Oracle(levels, names, parents)
    tree = TaxonomyTree(data=data)
    di = ctx.choice('drop', len(levels) - 1)
    red = tree.drop_level(levels[di])
    ref = C08.REF_GENES[:ng]
    query = [ref[i] for i in ctx.subset('query_has', ng)]
    all_par = [None] + [(levels[li], n) for li in range(len(levels) - 1)
                        for n in names[li]]
    table = {}
    for p in all_par:
        k = C08.parent_key(p)
        if ctx.flag(f"listed[{k}]"):
            table[k] = [ref[i] for i in ctx.subset(f"markers[{k}]", ng)]
    pruned = {k: v for k, v in table.items()
              if not k.startswith(levels[di] + '/')}
    env = Env(ctx)
    res = []
    for tag, tb in (('full', table), ('pruned', pruned)):
        cache = env.path(f'cache_{tag}.h5')
        try:
            MC.create_marker_cache_from_specified_markers(
                marker_lookup=copy.deepcopy(tb),
                reference_gene_names=list(ref),
                query_gene_names=list(query), output_cache_path=cache,
                taxonomy_tree=red, min_markers=1)
            ok, msg = TAU.reconcile_taxonomy_and_markers(red, cache)
            if not ok:
                res.append(('error', 'cache does not fit the taxonomy'))
            else:
                res.append(('ok', MC.serialize_markers(cache, red)))
        except RuntimeError as e:
            res.append(('error', str(e)[:60]))
        except Exception as e:
            ctx.exception(e)
            return 'EXC ' + type(e).__name__
    ctx.reach('compared')
    ctx.check(res[0][0] == res[1][0], 'same outcome with and without the '
              'marker lists of the removed parents')
    if res[0][0] == 'ok' and res[1][0] == 'ok':
        ctx.reach('both ok')
        ctx.check(res[0][1] == res[1][1], 'same markers used with and '
                  'without the lists of the removed parents')
    return res[0][0]


HARNESSES = [
    Harness('reduction_equivalence', h_equivalence, setup=LL.setup,
            cases=[{'sizes': s} for s in ([2, 3], [1, 2, 3], [2, 2, 3])]
            + [{'sizes': [2, 2, 2], 'alias': True}],
            thorough_cases=[{'sizes': s} for s in
                            ([2, 3], [1, 2, 3], [2, 2, 3], [2, 3, 4],
                             [2, 2, 2, 3], [1, 2, 2, 3])]
            + [{'sizes': [2, 2, 3], 'alias': True},
               {'sizes': [1, 2, 2], 'alias': True}],
            funcs=['TaxonomyTree._drop_level', 'flatten',
                   'backfill_assignments'] + C03.FUNCS,
            stubs=C03.STUBS, assumptions=C03.ASSUME,
            bounds='every child->parent map of the listed sizes; flatten '
                   'and drop of every non-leaf level; both runs share one '
                   'vote oracle keyed by (cell, parent, leaf)',
            outside='the _run_mapping sequence itself (mapping-stage '
                    'harness)', expect_reach=['mapped twice'], split=48),
    Harness('markers_of_removed_parents', h_markers_of_removed_parents,
            setup=setup_markers,
            cases=[{'sizes': [2, 3], 'genes': 2},
                   {'sizes': [1, 2, 3], 'genes': 1}],
            thorough_cases=[{'sizes': [2, 3], 'genes': 2},
                            {'sizes': [1, 2, 3], 'genes': 2},
                            {'sizes': [2, 2, 3], 'genes': 1}],
            funcs=['marker_cache_v2.create_marker_cache_from_specified_'
                   'markers', 'validate_marker_lookup', 'serialize_markers',
                   'TaxonomyTree.drop_level'],
            stubs=['h5py -> model'], classify=C08.classify,
            bounds='every onto tree of the listed sizes, every droppable '
                   'level, every marker table over 1-2 genes (parents '
                   'absent or any subset), every query subset',
            expect_reach=['compared', 'both ok'], split=48),
]
