"""helpers shared by the harnesses"""
import itertools

import numpy as np

from symx import core
from symx.npshim import NpShim, SArr, sarr, max_, min_  # noqa: F401
from symx.run import Harness  # noqa: F401

_PATCHED = []


def patch(module, name, value):
    """rebind a module global (child process only; never undone because
    every job runs in its own forked process)"""
    _PATCHED.append((module, name, getattr(module, name, None)))
    setattr(module, name, value)


def install_np(*modules):
    shim = NpShim()
    for m in modules:
        patch(m, 'np', shim)
    return shim


def shimmed(mode):
    return mode in ('sym', 'shimmed-concrete')


def arr(ctx, values, dtype=float):
    """array of harness-made values usable by repository code in the
    current mode"""
    if ctx.mode == 'sym' or any(core.is_sym(v) for v in
                                np.asarray(values, dtype=object).flat):
        return sarr(values, decl=dtype if np.dtype(dtype).kind in 'iu'
                    else None)
    if USE_SHIM_ARRAYS['on']:
        return sarr(values, decl=dtype if np.dtype(dtype).kind in 'iu'
                    else None)
    return np.array(values, dtype=dtype)


USE_SHIM_ARRAYS = {'on': False}


def set_mode(mode):
    USE_SHIM_ARRAYS['on'] = (mode == 'shimmed-concrete')


def reals(ctx, name, shape, lo=None, hi=None, **k):
    shape = (shape,) if isinstance(shape, int) else tuple(shape)
    out = np.empty(shape, dtype=object)
    for idx in np.ndindex(shape):
        out[idx] = ctx.real(f"{name}[{','.join(map(str, idx))}]", lo, hi,
                            **k)
    return out


def ints(ctx, name, shape, lo=None, hi=None):
    shape = (shape,) if isinstance(shape, int) else tuple(shape)
    out = np.empty(shape, dtype=object)
    for idx in np.ndindex(shape):
        out[idx] = ctx.int(f"{name}[{','.join(map(str, idx))}]", lo, hi)
    return out


def canonical_maps(n_items, n_bins, surjective=False):
    """all maps items->bins up to nothing (every map), as tuples"""
    for m in itertools.product(range(n_bins), repeat=n_items):
        if surjective and len(set(m)) != n_bins:
            continue
        yield m


# ------------------------------------------------------------------ trees
def level_names(hierarchy_sizes):
    """names per level; deliberately not in alphabetical order of index"""
    lv = ['L%d' % i for i in range(len(hierarchy_sizes))]
    names = []
    for li, n in enumerate(hierarchy_sizes):
        base = 'abcdefgh'[li]
        # n1 sorts before n0 for odd levels: exercises name ordering
        names.append([f"{base}{(7 * i + 3) % 10}x{i}" for i in range(n)])
    return lv, names


def tree_data(levels, names, parents, cells_per_leaf=1):
    """taxonomy dict from child->parent index lists.
    parents[li][i] = index (in level li-1) of the parent of node i of
    level li (li >= 1)."""
    data = {'hierarchy': list(levels)}
    for li, lv in enumerate(levels):
        data[lv] = {n: [] for n in names[li]}
    for li in range(1, len(levels)):
        for i, p in enumerate(parents[li]):
            data[levels[li - 1]][names[li - 1][p]].append(names[li][i])
    leaf = levels[-1]
    k = 0
    for n in names[-1]:
        data[leaf][n] = [f"cell{k + j}" for j in range(cells_per_leaf)]
        k += cells_per_leaf
    return data


def symbolic_parents(ctx, sizes, onto=False):
    """child->parent index lists chosen by the solver (forks).  With
    onto=True every node of every level but the last has a child (what
    the validator accepts and downstream code needs)."""
    parents = {}
    for li in range(1, len(sizes)):
        parents[li] = [ctx.choice(f"par{li}_{i}", sizes[li - 1])
                       for i in range(sizes[li])]
        if onto and len(set(parents[li])) != sizes[li - 1]:
            raise core.PathAbort('childless inner node (outside case)')
    return parents
