"""helpers shared by the harnesses"""
import itertools

import numpy as np

from symx import core
from symx.npshim import NpShim, SArr, sarr, max_, min_  # noqa: F401
from symx.run import Harness  # noqa: F401

_PATCHED = []


def patch(module, name, value):
    """rebind a module global (child process only; never undone because
    every job runs in its own forked process)"""
    _PATCHED.append((module, name, getattr(module, name, None)))
    setattr(module, name, value)


def install_np(*modules):
    shim = NpShim()
    for m in modules:
        patch(m, 'np', shim)
    return shim


class _StepH5:
    """the real h5py with crash points: a worker chosen by the fault
    model can die on opening a file or just after closing one"""

    def __init__(self):
        import h5py
        from symx import mpmodel

        class File(h5py.File):
            def __init__(self, name, mode='r', *a, **k):
                mpmodel.step(f'open {os.path.basename(str(name))} {mode}')
                super().__init__(name, mode, *a, **k)

            def __exit__(self, *a):
                name = os.path.basename(str(self.filename))
                r = super().__exit__(*a)
                if a and a[0] is None:
                    mpmodel.step(f'closed {name}')
                return r
        self.File = File
        self._h5py = h5py

    def __getattr__(self, n):
        return getattr(self._h5py, n)


def install_step_h5(*modules):
    shim = _StepH5()
    for m in modules:
        patch(m, 'h5py', shim)
    return shim


def shimmed(mode):
    return mode in ('sym', 'shimmed-concrete')


def arr(ctx, values, dtype=float):
    """array of harness-made values usable by repository code in the
    current mode"""
    if ctx.mode == 'sym' or any(core.is_sym(v) for v in
                                np.asarray(values, dtype=object).flat):
        return sarr(values, decl=dtype if np.dtype(dtype).kind in 'iu'
                    else None)
    if USE_SHIM_ARRAYS['on']:
        return sarr(values, decl=dtype if np.dtype(dtype).kind in 'iu'
                    else None)
    return np.array(values, dtype=dtype)


USE_SHIM_ARRAYS = {'on': False}


def set_mode(mode):
    USE_SHIM_ARRAYS['on'] = (mode == 'shimmed-concrete')


def reals(ctx, name, shape, lo=None, hi=None, **k):
    shape = (shape,) if isinstance(shape, int) else tuple(shape)
    out = np.empty(shape, dtype=object)
    for idx in np.ndindex(shape):
        out[idx] = ctx.real(f"{name}[{','.join(map(str, idx))}]", lo, hi,
                            **k)
    return out


def ints(ctx, name, shape, lo=None, hi=None):
    shape = (shape,) if isinstance(shape, int) else tuple(shape)
    out = np.empty(shape, dtype=object)
    for idx in np.ndindex(shape):
        out[idx] = ctx.int(f"{name}[{','.join(map(str, idx))}]", lo, hi)
    return out


def canonical_maps(n_items, n_bins, surjective=False):
    """all maps items->bins up to nothing (every map), as tuples"""
    for m in itertools.product(range(n_bins), repeat=n_items):
        if surjective and len(set(m)) != n_bins:
            continue
        yield m


# ------------------------------------------------------------------ trees
def level_names(hierarchy_sizes):
    """names per level; deliberately not in alphabetical order of index"""
    lv = ['L%d' % i for i in range(len(hierarchy_sizes))]
    names = []
    for li, n in enumerate(hierarchy_sizes):
        base = 'abcdefgh'[li]
        # n1 sorts before n0 for odd levels: exercises name ordering
        names.append([f"{base}{(7 * i + 3) % 10}x{i}" for i in range(n)])
    return lv, names


def tree_data(levels, names, parents, cells_per_leaf=1):
    """taxonomy dict from child->parent index lists.
    parents[li][i] = index (in level li-1) of the parent of node i of
    level li (li >= 1)."""
    data = {'hierarchy': list(levels)}
    for li, lv in enumerate(levels):
        data[lv] = {n: [] for n in names[li]}
    for li in range(1, len(levels)):
        for i, p in enumerate(parents[li]):
            data[levels[li - 1]][names[li - 1][p]].append(names[li][i])
    leaf = levels[-1]
    k = 0
    for n in names[-1]:
        data[leaf][n] = [f"cell{k + j}" for j in range(cells_per_leaf)]
        k += cells_per_leaf
    return data


def symbolic_parents(ctx, sizes, onto=False):
    """child->parent index lists chosen by the solver (forks).  With
    onto=True every node of every level but the last has a child (what
    the validator accepts and downstream code needs)."""
    parents = {}
    for li in range(1, len(sizes)):
        parents[li] = [ctx.choice(f"par{li}_{i}", sizes[li - 1])
                       for i in range(sizes[li])]
        if onto and len(set(parents[li])) != sizes[li - 1]:
            raise core.PathAbort('childless inner node (outside case)')
    return parents


# ------------------------------------------------------------ h5 / files
import atexit  # noqa: E402
import os  # noqa: E402
import shutil  # noqa: E402
import tempfile  # noqa: E402

from symx import h5model  # noqa: E402

SANDBOX = {'root': None, 'n': 0}
H5 = {'fake': False}


def install_h5(*modules):
    H5['fake'] = True
    for m in modules:
        patch(m, 'h5py', h5model.h5py)


def sandbox_root():
    if SANDBOX['root'] is None or SANDBOX.get('pid') != os.getpid():
        SANDBOX['root'] = tempfile.mkdtemp(prefix='symx_sbx_')
        SANDBOX['pid'] = os.getpid()
    return SANDBOX['root']


def cleanup_sandbox():
    r = SANDBOX.get('root')
    if r and SANDBOX.get('pid') == os.getpid():
        shutil.rmtree(r, ignore_errors=True)
        SANDBOX['root'] = None


class Env:
    """per-path scratch directory + h5 access in the current mode"""

    def __init__(self, ctx):
        self.ctx = ctx
        root = sandbox_root()
        for n in os.listdir(root):
            shutil.rmtree(os.path.join(root, n), ignore_errors=True)
        SANDBOX['n'] += 1
        self.dir = os.path.join(root, f"p{SANDBOX['n']}")
        os.makedirs(self.dir)
        h5model.reset()
        self.fake = H5['fake']

    def path(self, name):
        return os.path.join(self.dir, name)

    def File(self, path, mode='r'):
        if self.fake:
            return h5model.File(path, mode)
        import h5py
        return h5py.File(path, mode)

    def values(self, vals, dtype):
        """dataset payload for harness-made values"""
        if self.fake:
            return sarr(list(vals), decl=None) if len(vals) \
                else sarr(np.empty((0,), dtype=object))
        return np.array(list(vals), dtype=dtype)

    def write_sparse(self, grp, indptr, indices, data, dtype=np.float32,
                     idx_dtype=np.int32, chunks=None):
        kw = {}
        grp.create_dataset('indptr', data=np.array(indptr, dtype=idx_dtype))
        if chunks is not None and len(indices) > 0:
            kw['chunks'] = (min(chunks, len(indices)),)
        elif chunks is not None and chunks >= 1024:
            # no stored entry: anndata writes a resizable dataset of shape
            # (0,) whose chunk shape is h5py's guess for a resizable axis
            kw['chunks'] = (1024,)
            kw['maxshape'] = (None,)
        grp.create_dataset('indices',
                           data=np.array(indices, dtype=idx_dtype), **kw)
        if data is not None:
            if self.fake:
                grp.create_dataset('data', data=self.values(data, dtype),
                                   dtype=dtype, **kw)
            elif np.dtype(dtype).kind in 'iu':
                grp.create_dataset('data', data=np.array(
                    [int(x) for x in data], dtype=dtype), **kw)
            else:
                grp.create_dataset('data', data=np.array(
                    [float(x) for x in data], dtype=dtype), **kw)


def dense_from_bits(ctx, name, nr, nc, lo=None, hi=None, ints_only=False):
    """solver-chosen sparsity pattern with symbolic values.
    returns (dense nested list with None for absent, csr triple,
    csc triple) — values are harness inputs"""
    dense = [[None] * nc for _ in range(nr)]
    for r in range(nr):
        for c in range(nc):
            if ctx.flag(f"{name}.nz[{r},{c}]"):
                dense[r][c] = (ctx.int if ints_only else ctx.real)(
                    f"{name}[{r},{c}]", lo, hi)
    return dense


def to_csr(dense):
    indptr, indices, data = [0], [], []
    for row in dense:
        for c, v in enumerate(row):
            if v is not None:
                indices.append(c)
                data.append(v)
        indptr.append(len(indices))
    return indptr, indices, data


def to_csc(dense):
    nr = len(dense)
    nc = len(dense[0]) if nr else 0
    return to_csr([[dense[r][c] for r in range(nr)] for c in range(nc)])


def same_value(ctx, a, b):
    """exact identity of a stored value with the harness input it came
    from (term identity symbolically; float32-rounded equality when
    replayed through real files)"""
    if ctx.mode == 'sym':
        return core.same_term(a, b)
    if USE_SHIM_ARRAYS['on']:
        return a == b
    if isinstance(a, (int, np.integer)) and isinstance(b, (int, np.integer)):
        return int(a) == int(b)
    return np.float32(a) == np.float32(b) or a == b


# ------------------------------------------------------------------ literals
def generalise_literal(module, func_name, literal, values):
    """Re-compile `module.func_name` from its *current* source with every
    occurrence of the integer literal `literal` replaced by a value the
    solver chooses per path from `values` (the literal itself included):
    block sizes such as 1000000 make multi-block loops unreachable with
    small inputs; the loops are exercised with blocks of 1 or 2 instead.
    If the literal no longer occurs in the function it is left alone."""
    import ast
    import inspect
    import textwrap
    fn = getattr(module, func_name, None)
    if fn is None:
        return False
    try:
        src = textwrap.dedent(inspect.getsource(fn))
    except (OSError, TypeError):
        return False
    tree = ast.parse(src)
    hits = [0]
    # `literal` may also be a table {literal: values} (one pass for all)
    table = (dict(literal) if isinstance(literal, dict)
             else {literal: list(values)})

    class T(ast.NodeTransformer):
        def visit_Constant(self, node):
            if type(node.value) is int and node.value in table:
                hits[0] += 1
                return ast.copy_location(ast.Call(
                    func=ast.Name(id='__symx_literal__', ctx=ast.Load()),
                    args=[ast.Constant(node.value)], keywords=[]), node)
            return node
    tree = T().visit(tree)
    if not hits[0]:
        return False
    ast.fix_missing_locations(tree)
    ns = module.__dict__
    known = ns.setdefault('__symx_literal_values__', {})
    for lit, vs in table.items():
        known[lit] = list(vs)

    def chosen(lit):
        ctx = core.CUR
        vals = known[lit]
        key = f"block_size_for_{lit}"
        if key not in ctx.notes:          # notes are per path
            ctx.notes[key] = vals[ctx.choice(key, len(vals))]
        return ctx.notes[key]
    ns['__symx_literal__'] = chosen
    code = compile(tree, inspect.getsourcefile(fn) or '<generalised>',
                   'exec')
    scratch = {}
    exec(code, ns, scratch)
    new = scratch[func_name]
    patch(module, func_name, new)
    return True


def generalise_large_literals(module, min_value=1000, small=(1, 2, 3),
                              skip=()):
    """every integer literal >= min_value inside a plain function of
    `module` is a blocking / batching size as far as a handful of symbolic
    rows is concerned (the loops it governs are unreachable with them):
    each is re-compiled with `generalise_literal` so that the solver also
    runs the function with blocks of 1, 2 and 3.  Functions named in
    `skip` keep their literals (scales such as counts-per-million are
    semantic, not blocking).  Returns {function: [literals]} for the
    evidence; on a tree without such literals it does nothing."""
    import ast
    import inspect
    import textwrap
    import types
    done = {}
    for name, fn in list(vars(module).items()):
        if not isinstance(fn, types.FunctionType) or name in skip:
            continue
        if getattr(fn, '__module__', None) != module.__name__:
            continue
        try:
            tree = ast.parse(textwrap.dedent(inspect.getsource(fn)))
        except (OSError, TypeError, SyntaxError):
            continue
        lits = sorted({n.value for n in ast.walk(tree)
                       if isinstance(n, ast.Constant)
                       and type(n.value) is int and n.value >= min_value})
        if lits and generalise_literal(
                module, name, {lit: [lit] + list(small) for lit in lits},
                None):
            done[name] = lits
    return done


# ------------------------------------------------------------------ hash seed
class HashSet:
    """stand-in for the builtin set inside a repository module: same
    operations, but the iteration order is chosen by the solver (every
    order up to 4 elements, insertion order or its reverse beyond that) -
    i.e. the result of the code is explored under different hash seeds"""
    counter = [0]

    def __init__(self, it=()):
        self._items = []
        for x in it:
            if x not in self._items:
                self._items.append(x)

    # --- order-dependent
    def __iter__(self):
        HashSet.counter[0] += 1
        n = len(self._items)
        tag = f"setorder{HashSet.counter[0]}"
        if n <= 1:
            return iter(list(self._items))
        if n <= 4:
            p = core.CUR.perm(tag, n)
            return iter([self._items[i] for i in p])
        if core.CUR.flag(tag + '.reversed'):
            return iter(list(reversed(self._items)))
        return iter(list(self._items))

    def pop(self):
        for x in self:
            self._items.remove(x)
            return x
        raise KeyError('pop from an empty set')

    # --- order-independent
    def __len__(self):
        return len(self._items)

    def __contains__(self, x):
        return x in self._items

    def __bool__(self):
        return bool(self._items)

    def add(self, x):
        if x not in self._items:
            self._items.append(x)

    def discard(self, x):
        if x in self._items:
            self._items.remove(x)

    def remove(self, x):
        self._items.remove(x)

    def update(self, *others):
        for o in others:
            for x in _plain(o):
                self.add(x)

    def copy(self):
        return HashSet(self._items)

    def union(self, *others):
        r = self.copy()
        r.update(*others)
        return r

    def intersection(self, *others):
        r = list(self._items)
        for o in others:
            o = _plain(o)
            r = [x for x in r if x in o]
        return HashSet(r)

    def difference(self, *others):
        r = list(self._items)
        for o in others:
            o = _plain(o)
            r = [x for x in r if x not in o]
        return HashSet(r)

    def issubset(self, o):
        o = _plain(o)
        return all(x in o for x in self._items)

    def issuperset(self, o):
        return all(x in self._items for x in _plain(o))

    __or__ = union
    __and__ = intersection
    __sub__ = difference

    def __eq__(self, o):
        if isinstance(o, (HashSet, set, frozenset)):
            o = _plain(o)
            return len(o) == len(self._items) and \
                all(x in o for x in self._items)
        return NotImplemented

    def __repr__(self):
        return f"HashSet({self._items!r})"


def _plain(o):
    return o._items if isinstance(o, HashSet) else list(o)
