"""C04 — results depend only on inputs and seed, never on scheduling.
Claimed scope: the dispatch / gather / merge logic under the
multiprocessing model (every completion order), and hash-seed
independence of the set-iterating kernels under the set model."""
from symx import core, mpmodel
from symx.core import And, Or, Not
from harness.common import Harness, patch
from harness import dispatch as DP
from harness import levelloop as LL
from harness import C03

import cell_type_mapper.type_assignment.election as el


def h_schedules(ctx, case):
    res = DP.run_dispatch(ctx, case, faults=False)
    if res['raised'] is not None:
        ctx.exception(res['raised'])
        return 'EXC'
    ctx.reach('mapped')
    order = res['order']
    if order != sorted(order):
        ctx.reach('out-of-order completion')
    DP.check_dispatch(ctx, res, case)
    # the worker count matters only through the documented chunking
    n = len(res['names'])
    nproc, chunk = int(res['nproc']), int(res['chunk'])
    eff = min(max(1, -(-n // nproc)), chunk)
    spans = [(int(p.kwargs['r0']), int(p.kwargs['r1']))
             for p in res['procs']]
    ctx.check(spans == [(a, min(n, a + eff)) for a in range(0, n, eff)],
              'chunks == rows split by min(chunk_size, ceil(n/workers)); '
              'nothing else depends on the worker count')
    # workers never run more than n_processors at a time is not
    # observable in the result; completion order is:
    return 'order=' + ''.join(map(str, order))


class NondetSet:
    """set whose iteration order is chosen by the solver (every order =
    every hash seed)"""
    _n = [0]

    def __init__(self, it=()):
        self._items = []
        for x in it:
            if x not in self._items:
                self._items.append(x)

    def __iter__(self):
        NondetSet._n[0] += 1
        p = core.CUR.perm(f"setorder{NondetSet._n[0]}", len(self._items))
        return iter([self._items[i] for i in p])

    def __len__(self):
        return len(self._items)

    def __contains__(self, x):
        return x in self._items


def setup_hash(case, mode):
    LL.setup(case, mode)
    patch(el, 'set', NondetSet)


def h_hash_seed(ctx, case):
    """run_type_assignment / aggregate_votes iterate over set(...): two
    runs on the same votes with independently chosen iteration orders
    (= two hash seeds) must give identical records, and each run must
    satisfy the C01/C03 obligations"""
    from harness import C06
    NondetSet._n[0] = 0
    levels, names, parents, data = LL.build_tree(ctx, case)
    tree, err = LL.validator_accepts(data)
    if tree is None:
        raise core.PathAbort('invalid')
    IT = ctx.int('iterations', 1, 1000000)
    nas = ctx.choice('n_assignments-1', case.get('max_nas', 2)) + 1
    try:
        nc = case.get('cells', 1)
        oracle, r1 = LL.run_levels(ctx, case, tree, levels, names, parents,
                                   nc, nas, IT)
        n1 = NondetSet._n[0]
        visits1 = list(oracle.visits)
        oracle.visits.clear()
        oracle, r2 = LL.run_levels(ctx, case, tree, levels, names, parents,
                                   nc, nas, IT, oracle=oracle)
        visits2 = list(oracle.visits)
    except Exception as e:
        ctx.exception(e)
        return 'EXC ' + type(e).__name__
    ctx.reach('mapped')
    if n1 > 0:
        ctx.reach('set iterated')
    if not case.get('light'):
        LL.check_records(ctx, oracle, r1, levels, levels, names, parents,
                         list(range(nc)), nas, IT, confidence=True)
    for a, b in zip(r1, r2):
        C06.same_record(ctx, a, b, levels,
                        'two hash seeds (set iteration orders)')
    # all parents draw from one shared random generator: the order in
    # which they are visited must not depend on the hash seed either
    ctx.check(visits1 == visits2, 'parents are voted on in the same order '
              'under both hash seeds (they share one random generator)')
    return 'ok'


def setup_lookup_hash(case, mode):
    from harness import selstage as SS
    from harness.common import HashSet
    import cell_type_mapper.type_assignment.marker_cache_v2 as MC
    import cell_type_mapper.diff_exp.precompute_utils as PU
    SS.setup(case, mode)
    patch(MC, 'print', lambda *a, **k: None)
    patch(MC, 'set', HashSet)
    patch(PU, 'set', HashSet)


def h_lookup_hash_seed(ctx, case):
    """query-marker selection from two reference-marker files whose
    statistics tie at every parent: two runs with independently chosen
    set iteration orders (two hash seeds) select the same markers"""
    from harness import selstage as SS
    from harness.common import HashSet
    SS.two_reference_files()
    HashSet.counter[0] = 0
    a, ea = SS.lookup_two_refs()
    n1 = HashSet.counter[0]
    b, eb = SS.lookup_two_refs()
    if ea is not None or eb is not None:
        ctx.exception(ea or eb, 'query-marker selection failed: '
                      + str(ea or eb)[:80])
        return 'EXC'
    ctx.reach('selected twice')
    if n1 > 0:
        ctx.reach('set iterated')

    def strip(x):
        return {k: sorted(v) for k, v in x.items()
                if k not in ('log', 'metadata')}
    ctx.check(strip(a) == strip(b), 'the selected markers do not depend on '
              'the iteration order of sets (hash seed)')
    return 'ok'


def _stage_harnesses():
    """the other parallel stages under every completion order of their
    workers (K 'not yet' answers per poll): the product must equal the
    single-worker product (harness bodies of C09 / C11 / C12)"""
    from harness import C09, C11, C12
    from harness import refstats as RS
    common = dict(stubs=['multiprocessing -> symbolic scheduler: every '
                         'completion order of the workers within K'],
                  outside='OS scheduling below the granularity of a worker '
                          'body')
    return [
        Harness('reference_marker_stage_schedules', C11.h_marker_stage,
                setup=C11._rm_setup,
                cases=[{'vary': [], 'fixed': True, 'K': 1, 'nproc': 2},
                       {'vary': [], 'fixed': True, 'K': 1, 'nproc': 2,
                        'route': 'mask'}],
                thorough_cases=[{'vary': [], 'fixed': True, 'K': 1,
                                 'nproc': 3}],
                funcs=['markers.find_markers_for_all_taxonomy_pairs',
                       'p_value_mask.create_p_value_mask_file',
                       'p_value_markers.find_markers_for_all_taxonomy_'
                       'pairs_from_p_mask',
                       'csc_to_csr_parallel.transpose_sparse_matrix_on_'
                       'disk_v2'],
                bounds='real files, 5 clusters / 6 genes, 2 (thorough 3) '
                       'workers in each pool, every completion order '
                       'within K=1; '
                       'tables compared with the single-worker run',
                expect_reach=['written'], split=16, tiers=('thorough',),
                **common),
        Harness('marker_selection_stage_schedules', C12.h_select_all,
                setup=C12._ss_setup,
                cases=[{'vary_genes': ['g1'], 'target': 1, 'K': 1,
                        'nproc': 2}],
                thorough_cases=[{'vary_genes': ['g1'], 'target': 1, 'K': 1,
                                 'nproc': 3}],
                funcs=['selection_pipeline.select_all_markers',
                       '_marker_selection_worker'],
                bounds='real marker file; 2 (thorough 3) workers, every '
                       'completion order within K=1; gene sets compared with the '
                       'single-worker run',
                expect_reach=['selected'], split=16, **common),
        Harness('statistics_stage_schedules', C09.h_stage, setup=RS.setup,
                cases=[{'cells': 3, 'genes': 1, 'clusters': 2,
                        'max_proc': 3, 'K': 2}],
                thorough_cases=[{'files': 2, 'cells': 2, 'genes': 1,
                                 'clusters': 2, 'max_proc': 3, 'K': 2}],
                funcs=['precompute_from_anndata.precompute_summary_stats_'
                       'from_h5ad_and_lookup', '_process_chunk_spec'],
                bounds='3 cells, 1-3 workers, every completion order within '
                       'K=2; every table compared with its definition',
                expect_reach=['written'], split=32, **common),
    ]


HARNESSES = _stage_harnesses() + [
    Harness('query_marker_lookup_hash_seed', h_lookup_hash_seed,
            setup=setup_lookup_hash, cases=[{}],
            funcs=['marker_cache_v2.create_marker_gene_lookup_from_ref_list',
                   'create_marker_gene_lookup_from_mapping',
                   'precompute_utils.run_leaf_census'],
            stubs=['builtin set inside marker_cache_v2 / precompute_utils '
                   '-> set with solver-chosen iteration order',
                   'multiprocessing -> scheduler model'],
            bounds='two reference-marker files (real marker stage, 5 '
                   'clusters / 6 genes) whose statistics files hold equally '
                   'many cells of every cluster (ties at every parent); '
                   'sets of up to 4 elements in every order, larger ones in '
                   'insertion order or reversed',
            expect_reach=['selected twice']),
    Harness('mapping_all_schedules', h_schedules, setup=DP.setup,
            cases=[{'rows': 2, 'K': 2}, {'rows': 3, 'K': 2},
                   {'rows': 3, 'K': 2, 'buffer': True},
                   {'rows': 4, 'K': 2, 'max_proc': 4}],
            thorough_cases=[{'rows': n, 'K': k, 'buffer': b,
                             'max_proc': 4}
                            for n in (2, 3, 4) for k in (2, 3)
                            for b in (False, True)],
            funcs=['election_runner.run_type_assignment_on_h5ad',
                   'election.run_type_assignment_on_h5ad_cpu',
                   '_run_type_assignment_on_h5ad_worker',
                   'output_utils.re_order_blob',
                   'multiprocessing_utils.winnow_process_list'],
            stubs=['multiprocessing -> symbolic scheduler: each poll of '
                   'exitcode may answer "not yet" up to K times per '
                   'worker; the real worker body runs at completion',
                   'election.run_type_assignment -> deterministic function '
                   'of (chunk rows, chunk generator)',
                   'h5py / read_df_from_h5ad / json buffer files -> models'],
            bounds='2-4 rows, chunk size symbolic, 1-4 workers (symbolic), '
                   'K=2 (thorough 3) => every completion order of up to 3 '
                   '(4) concurrent workers; both gather modes',
            outside='OS scheduler, BLAS threads, real Manager proxies; '
                    'other stages (reference statistics, markers, marker '
                    'selection, transposition) are covered in C09/C11/'
                    'C12/C13 for worker-count independence only',
            expect_reach=['mapped', 'out-of-order completion'], selftest=4,
            split=64),
    Harness('hash_seed_independence', h_hash_seed, setup=setup_hash,
            cases=[{'sizes': s, 'max_nas': 2} for s in
                   ([2], [3], [1, 2], [2, 3], [1, 2, 3])]
            + [{'sizes': [2, 4], 'max_nas': 1, 'cells': 2, 'light': True,
                'parents': [[0, 0, 1, 1]]}],
            thorough_cases=[{'sizes': s} for s in
                            ([2], [3], [1, 2], [2, 3], [1, 2, 3],
                             [2, 2, 3], [2, 3, 4])],
            funcs=C03.FUNCS, stubs=C03.STUBS + [
                'builtin set in election -> set whose iteration order is '
                'solver-chosen'],
            bounds='trees as listed; every iteration order of every set '
                   'built in election.run_type_assignment / '
                   'aggregate_votes / choose_node',
            expect_reach=['mapped', 'set iterated'], split=48),
]
