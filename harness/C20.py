"""C20 — cloud-safe outputs reveal no absolute path of the host.
Real run_mapping with cloud_safe=True on real files; the solver chooses
how the run ends (success, invalid input of several classes, worker
failure, failing environment step) and the file / directory names."""
import os
import shutil

from symx import core
from harness.common import Harness, sandbox_root
from harness import stage as ST
from harness import stagechecks as SC

import cell_type_mapper

ENDINGS = ['success', 'missing marker file', 'missing query file',
           'negative raw counts', 'unusable root markers', 'worker failure',
           'environment failure', 'drop unknown level', 'bad normalization',
           'results already stored in the query']


def h_cloud(ctx, case):
    inp = SC.inputs(case)
    work = ST.new_work()
    # directory / file names with punctuation (no spaces)
    tag = ['plain', "it's", 'a,b', 'x(1)', 'k=v'][ctx.choice('names', 5)]
    sub = os.path.join(work['base'], f"dir_{tag}")
    os.makedirs(sub)
    work['scratch'] = os.path.join(sub, 'scratch')
    work['out'] = os.path.join(sub, 'out')
    os.makedirs(work['scratch'])
    os.makedirs(work['out'])
    q = os.path.join(sub, f"query_{tag}.h5ad")
    shutil.copy(inp.query('dense', True), q)
    end = ENDINGS[ctx.choice('ending', len(ENDINGS))]
    kw = dict(cloud_safe=True, bootstrap_iteration=3)
    cfg = ST.make_config(inp, work, **kw)
    cfg['query_path'] = q
    if not ctx.flag('separate_log_file'):
        cfg['log_path'] = None
    undo = None
    faults = False
    if end == 'missing marker file':
        cfg['query_markers']['serialized_lookup'] = os.path.join(
            sub, 'no_such_markers.json')
    elif end == 'missing query file':
        cfg['query_path'] = os.path.join(sub, 'no_such_query.h5ad')
    elif end == 'negative raw counts':
        import h5py
        with h5py.File(q, 'a') as f:
            x = f['X'][()]
            x[0, 0] = -1.0
            f['X'][...] = x
    elif end == 'unusable root markers':
        cfg['query_markers']['serialized_lookup'] = inp.markers_file(
            {'None': ['not_a_gene'], 'class/clsB': ['g2']}, 'bad')
    elif end == 'worker failure':
        faults = True
    elif end == 'environment failure':
        undo = SC.install_env_fault(
            ctx, ctx.choice('env_point', len(SC.ENV_POINTS)),
            ['before', 'after'][ctx.choice('env_when', 2)])
    elif end == 'drop unknown level':
        cfg['drop_level'] = 'nope'
    elif end == 'bad normalization':
        cfg['type_assignment']['normalization'] = 'log10'
    elif end == 'results already stored in the query':
        # an earlier run stored its results in the query file under the
        # same key; this one may not overwrite them
        cfg['obsm_key'] = 'cdm_mapping'
        cfg['obsm_clobber'] = False
        first = ST.run(dict(cfg), faults=False)
        ctx.check(first['raised'] is None, 'first run with obsm_key '
                  'succeeds: ' + str(first['raised'])[:80])
        for k in ('csv_result_path', 'extended_result_path', 'log_path',
                  'hdf5_result_path'):
            if cfg[k] and os.path.exists(cfg[k]):
                os.unlink(cfg[k])
    try:
        res = ST.run(cfg, faults=faults, fault_modes=['before', 'raise_at'])
    except FileNotFoundError as e:
        # run_mapping's own finally block reads the query file
        res = {'raised': e, 'json': None, 'csv': None, 'log': None,
               'h5': None, 'outcome': {}}
        p = cfg['log_path']
        res['log'] = open(p).read() if p and os.path.exists(p) else None
    finally:
        if undo:
            undo()
    ctx.reach('failed' if res['raised'] is not None else 'succeeded')
    needles = [sandbox_root(),
               os.path.dirname(os.path.dirname(cell_type_mapper.__file__))
               + os.sep]
    SC.check_cloud_safe(ctx, cfg, res, needles)
    ST.drop_work(work)
    return end


def classify(f, case):
    return None


HARNESSES = [
    Harness('cloud_safe_outputs', h_cloud, setup=SC.setup, cases=[{}],
            funcs=['from_specified_markers.run_mapping', '_run_mapping',
                   'cloud_utils.sanitize_paths', 'is_exposed',
                   '_word_to_path', 'is_relative_to',
                   'cli_log.CommandLog.write_log',
                   'file_tracker.FileTracker', 'output_utils.blob_to_hdf5'],
            stubs=['multiprocessing -> model with fault injection'],
            bounds='directory and file names: plain, with apostrophe, '
                   'comma, parentheses, key=value (no spaces); endings: '
                   + ', '.join(ENDINGS),
            outside='third-party exception texts as an open set; names '
                    'with spaces (the word-wise sanitiser cannot see '
                    'them and the property restricts itself to space-free '
                    'names)',
            classify=classify, expect_reach=['failed', 'succeeded'],
            split=16),
]
