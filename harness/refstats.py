"""Shared harness body: the real reference-statistics stage
(precompute_from_anndata.precompute_summary_stats_from_h5ad_and_tree /
_and_lookup -> _precompute_summary_stats_from_h5ad_and_lookup ->
_process_chunk_spec -> _process_chunk -> summary_stats_for_chunk ->
_create_empty_stats_file) on the h5 / multiprocessing models."""
import json

import numpy as np

from symx import core, mpmodel
from symx.core import And, Or, Not, Implies, Sum
from harness.common import (patch, install_np, install_h5, shimmed, arr,
                            set_mode, Env)
from harness.C05 import write_h5ad_x
from harness.dispatch import FakeDF

import cell_type_mapper.diff_exp.precompute_from_anndata as PFA
import cell_type_mapper.diff_exp.precompute as PRE
import cell_type_mapper.utils.stats_utils as ST
import cell_type_mapper.anndata_iterator.anndata_iterator as AI
import cell_type_mapper.utils.sparse_utils as SU
import cell_type_mapper.cell_by_gene.cell_by_gene as CBG
import cell_type_mapper.cell_by_gene.utils as CBGU
import cell_type_mapper.utils.utils as UU
import cell_type_mapper.taxonomy.taxonomy_tree as TT
from cell_type_mapper.taxonomy.taxonomy_tree import TaxonomyTree


def setup(case, mode):
    set_mode(mode)
    if shimmed(mode):
        import cell_type_mapper.utils.csc_to_csr as _M
        install_np(PFA, ST, AI, SU, CBG, CBGU, UU, _M)
        install_h5(PFA, PRE, AI, _M)
    patch(PFA, 'multiprocessing', mpmodel.multiprocessing)
    patch(PFA, 'print', lambda *a, **k: None)
    patch(AI, 'print', lambda *a, **k: None)


CLUSTERS = ['clB', 'clA', 'clC']


def build_inputs(ctx, case, env):
    """files, cells, labels.  returns dict"""
    nfiles = case.get('files', 1)
    ncell = case['cells']            # per file
    ng = case.get('genes', 2)
    ncl = case.get('clusters', 2)
    raw = case.get('normalization', 'log2CPM') == 'raw'
    genes = [f"g{i}" for i in range(ng)]
    paths, names, rows, label = [], {}, {}, {}
    file_genes = {}
    rows_in_file = {}
    k = 0
    for fi in range(nfiles):
        if case.get('same_basename'):
            # files of several batches named alike in their own directories
            import os
            os.makedirs(env.path(f"batch{fi}"), exist_ok=True)
            p = env.path(os.path.join(f"batch{fi}", "expression.h5ad"))
        else:
            p = env.path(f"ref{fi}.h5ad")
        nm = [f"cell{(3 * (k + i) + 1) % 11}_{k + i}" for i in range(ncell)]
        xdt = case.get('x_dtype')
        if xdt is not None:
            # counts stored in a narrow integer type: any value of its
            # range (modelled as a real in that range; a witness is
            # replayed with its values truncated to integers)
            info = np.iinfo(np.dtype(xdt))
            dense = [[ctx.real(f"x[{fi},{i},{g}]", int(info.min),
                               int(info.max))
                      for g in range(ng)] for i in range(ncell)]
            if ctx.mode != 'sym':
                dense = [[float(int(v)) for v in row] for row in dense]
        else:
            dense = [[ctx.real(f"x[{fi},{i},{g}]", 0 if raw else None, None)
                      for g in range(ng)] for i in range(ncell)]
        enc = case.get('enc', 'dense')
        write_h5ad_x(env, p, dense, enc,
                     **({'dtype': np.dtype(xdt)} if xdt else {}))
        paths.append(p)
        names[p] = nm
        # var table of this file (the column order may differ)
        if fi > 0 and case.get('perm_genes'):
            file_genes[p] = [genes[j] for j in ctx.perm(f"gene_order[{fi}]",
                                                        ng)]
        else:
            file_genes[p] = list(genes)
        for i in range(ncell):
            rows[nm[i]] = dense[i]
            rows_in_file[nm[i]] = list(dense[i])
            c = ctx.choice(f"label[{fi},{i}]", ncl + 1)
            label[nm[i]] = None if c == ncl else CLUSTERS[c]
        k += ncell
    return {'paths': paths, 'names': names, 'rows': rows, 'label': label,
            'genes': genes, 'clusters': CLUSTERS[:ncl], 'raw': raw,
            'file_genes': file_genes, 'rows_in_file': rows_in_file}


def install_readers(inp):
    import shutil as _shutil
    staged = {}      # staged copy -> original (copy_data_over)

    class _Shutil:
        def __getattr__(self, n):
            return getattr(_shutil, n)

        def copy(self, src, dst, **k):
            r = _shutil.copy(src, dst, **k)
            staged[str(dst)] = staged.get(str(src), str(src))
            return r

    patch(PFA, 'shutil', _Shutil())

    def rd(path, df_name):
        path = str(path)
        path = staged.get(path, path)
        if path not in inp['names']:
            raise core.ShimGap(f"read_df_from_h5ad of an unknown file "
                               f"{path}")
        if df_name == 'obs':
            return FakeDF(list(inp['names'][path]))
        if df_name == 'var':
            return FakeDF(list(inp['file_genes'][path]))
        raise core.ShimGap(f"read_df_from_h5ad {df_name}")
    patch(PFA, 'read_df_from_h5ad', rd)


def run_stage(ctx, case, env, inp, faults=False):
    install_readers(inp)
    out = env.path('stats.h5')
    nproc = ctx.int('n_processors', 1, case.get('max_proc', 3))
    ncell_tot = sum(len(v) for v in inp['names'].values())
    rat = ctx.int('rows_at_a_time', 1, ncell_tot + 1)
    mpmodel.SCHED.reset(K=case.get('K', 1), faults=faults,
                        fault_modes=case.get('fault_modes'),
                        fault_steps=case.get('fault_steps', 1))
    cl = sorted(inp['clusters'])
    c2r = {c: i for i, c in enumerate(cl)}
    name2cl = {n: c for n, c in inp['label'].items() if c is not None}
    raised = None
    tree = None
    try:
        if case.get('via_tree'):
            data = {'hierarchy': ['cluster'],
                    'cluster': {c: [n for n, l_ in inp['label'].items()
                                    if l_ == c] for c in inp['clusters']}}
            tree = TaxonomyTree(data=data)
            PFA.precompute_summary_stats_from_h5ad_list_and_tree(
                data_path_list=list(inp['paths']), taxonomy_tree=tree,
                output_path=out, rows_at_a_time=rat,
                normalization='raw' if inp['raw'] else 'log2CPM',
                tmp_dir=env.dir, n_processors=nproc,
                copy_data_over=bool(case.get('copy_data_over')))
        else:
            PFA.precompute_summary_stats_from_h5ad_and_lookup(
                data_path_list=list(inp['paths']),
                cell_name_to_cluster_name=name2cl,
                cluster_to_output_row=c2r,
                output_path=out, rows_at_a_time=rat,
                normalization='raw' if inp['raw'] else 'log2CPM',
                tmp_dir=env.dir, n_processors=nproc,
                copy_data_over=bool(case.get('copy_data_over')))
    except Exception as e:
        raised = e
    return {'out': out, 'tree': tree, 'raised': raised, 'c2r': c2r, 'nproc': nproc,
            'rat': rat, 'outcome': dict(mpmodel.SCHED.outcome)}


def norm_value(ctx, inp, row, g):
    """log2(CPM+1) of entry g of a raw row, by the harness"""
    if not inp['raw']:
        return row[g]
    tot = Sum(list(row))
    if ctx.mode == 'sym':
        import z3
        t = core._toreal(core.term(tot))
        x = core._toreal(core.term(row[g]))
        cpm = core.CUR.divide(x, z3.If(t > 0, t, z3.RealVal(1)))
        return ctx.ufn('log2', core._toreal(
            core.term(1.0 + 1000000.0 * cpm)))
    d = tot if tot > 0 else 1.0
    return float(np.log2(1.0 + 1.0e6 * row[g] / d))


def check_stats(ctx, inp, res, env):
    with env.File(res['out'], 'r') as f:
        got = {k: f[k][()] for k in ('n_cells', 'sum', 'sumsq', 'gt0',
                                     'gt1', 'ge1')}
        col = json.loads(f['col_names'][()].decode('utf-8'))
        c2r = json.loads(f['cluster_to_row'][()].decode('utf-8'))
    if res.get('tree') is not None:
        with env.File(res['out'], 'r') as f:
            ok = 'taxonomy_tree' in f
            ctx.check(ok, 'the input taxonomy accompanies the statistics')
            if ok:
                t2 = TaxonomyTree.from_str(
                    f['taxonomy_tree'][()].decode('utf-8'))
                ctx.check(t2 == res['tree'], 'stored taxonomy == input '
                          'taxonomy')
    ctx.check(col == inp['genes'], 'gene-name table == input genes')
    ctx.check(sorted(c2r) == sorted(inp['clusters']) and
              sorted(c2r.values()) == list(range(len(c2r))),
              'cluster-to-row table is a bijection onto the rows')
    for c in inp['clusters']:
        members = [n for n, l_ in inp['label'].items() if l_ == c]
        r = c2r[c]
        ctx.check(ctx.eq(got['n_cells'][r], len(members)),
                  'n_cells == number of member cells')
        for g in range(len(inp['genes'])):
            vals = [norm_value(ctx, inp, inp['rows'][n], g)
                    for n in members]
            ctx.check(ctx.eq(got['sum'][r, g], Sum(vals)),
                      'sum == sum of log2(CPM+1) over member cells')
            ctx.check(ctx.eq(got['sumsq'][r, g],
                             Sum([v * v for v in vals])),
                      'sumsq == sum of squares over member cells')
            for key, thr in (('gt0', 0.0), ('gt1', 1.0),
                             ('ge1', 1.0 - 1.0e-6)):
                cnt = Sum([_ind(ctx, v > thr) for v in vals])
                ctx.check(ctx.eq(got[key][r, g], cnt),
                          f'{key} == number of member cells above its '
                          'threshold')


def _ind(ctx, b):
    if core.is_sym(b):
        import z3
        return core.SInt(z3.If(core.bexpr(b), z3.IntVal(1), z3.IntVal(0)))
    return 1 if b else 0


def accepted_as_complete(env, path):
    """would a later stage take the file at `path` for a finished
    statistics file?  (taxonomy readable, or numeric tables readable)"""
    import os
    import cell_type_mapper.diff_exp.score_utils as SCU
    if not os.path.exists(path):
        return False
    try:
        with env.File(path, 'r') as f:
            if 'taxonomy_tree' in f:
                return True
            return all(k in f for k in ('n_cells', 'sum', 'cluster_to_row',
                                        'col_names'))
    except Exception:
        return False
