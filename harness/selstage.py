"""Query-marker selection stage on real files: the real
selection_pipeline.select_all_markers (MarkerGeneArray.from_cache_path,
thinning to the query genes, per-parent down-sampling or full-table
copies, worker dispatch) on a reference-marker file produced by the real
reference-marker stage, with the multiprocessing model."""
import itertools
import os
import shutil
import warnings

import numpy as np

from symx import core, mpmodel
from harness.common import patch, sandbox_root
from harness import refmarkers as RM

import cell_type_mapper.marker_selection.selection_pipeline as SP
import cell_type_mapper.marker_selection.selection as SEL

STATE = {}


def setup(case, mode):
    RM.setup(case, mode)
    patch(SP, 'multiprocessing', mpmodel.multiprocessing)
    patch(SP, 'print', lambda *a, **k: None)
    patch(SEL, 'print', lambda *a, **k: None)
    STATE.clear()


def marker_file():
    """built once per job by the real reference-marker stage"""
    if 'path' in STATE:
        return STATE
    root = os.path.join(sandbox_root(), 'selstage')
    shutil.rmtree(root, ignore_errors=True)
    os.makedirs(os.path.join(root, 'scratch'))
    stats = os.path.join(root, 'stats.h5')
    tree, prof = RM.build_stats(stats, {lf: 3 for lf in RM.LEAVES})
    out = os.path.join(root, 'reference_markers.h5')
    saved = getattr(core.CUR, '_mp_epoch', 0)
    mpmodel.SCHED.reset(K=0)
    import cell_type_mapper.diff_exp.markers as MK
    with warnings.catch_warnings():
        warnings.simplefilter('ignore')
        MK.find_markers_for_all_taxonomy_pairs(
            stats, tree, out, n_processors=1,
            tmp_dir=os.path.join(root, 'scratch'), exact_penetrance=True,
            max_gb=1)
    mk = RM.read_markers(out)
    if core.CUR is not None:
        # built once per job, inside the first path: must not shift the
        # names of that path's scheduler choices
        core.CUR._mp_epoch = saved
    STATE.update(path=out, tree=tree, root=root, mk=mk)
    return STATE


def run_selection(ctx, case, faults=False):
    st = marker_file()
    tree = st['tree']
    genes = list(RM.GENES)
    vary = case.get('vary_genes', genes)
    inq = [ctx.flag(f"in_query[{g}]") if g in vary else True
           for g in genes]
    query = ['q_only_gene'] + [g for g, f in zip(genes, inq) if f]
    target = case['target'] if 'target' in case \
        else 1 + ctx.choice('n_per_utility-1', 2)
    nproc = case['nproc'] if 'nproc' in case \
        else 1 + ctx.choice('n_processors-1', 3)
    cutoff = [1000000, 0, 1, -1][ctx.choice('behemoth_cutoff', 4)]
    scratch = os.path.join(st['root'], 'scratch')
    for n in os.listdir(scratch):
        shutil.rmtree(os.path.join(scratch, n), ignore_errors=True)

    def go(nproc, cutoff, faults_on):
        mpmodel.SCHED.reset(K=case.get('K', 0), faults=faults_on,
                            fault_modes=case.get('fault_modes'),
                            fault_steps=case.get('fault_steps', 1))
        try:
            with warnings.catch_warnings():
                warnings.simplefilter('ignore')
                out, log = SP.select_all_markers(
                    marker_cache_path=st['path'],
                    query_gene_names=list(query), taxonomy_tree=tree,
                    n_per_utility=target, n_processors=nproc,
                    behemoth_cutoff=cutoff, tmp_dir=scratch)
            return out, None
        except Exception as e:
            return None, e
    res = {'query': query, 'inq': inq, 'target': target, 'tree': tree,
           'mk': st['mk'], 'scratch': scratch}
    res['out'], res['raised'] = go(nproc, cutoff, faults)
    res['outcome'] = dict(mpmodel.SCHED.outcome)
    if not faults and res['raised'] is None and \
            (nproc, cutoff) != (1, 1000000):
        res['base'], res['base_raised'] = go(1, 1000000, False)
    return res


LK = {}


def lookup_files():
    """reference-marker file carrying its metadata record, the statistics
    file it names, and the reference answer: built once per job"""
    if LK:
        return LK
    import h5py
    import json
    import cell_type_mapper.type_assignment.marker_cache_v2 as MC
    st = marker_file()
    root = os.path.join(sandbox_root(), 'lookup')
    shutil.rmtree(root, ignore_errors=True)
    for d in ('stats_dir', 'marker_dir', 'scratch', 'keep'):
        os.makedirs(os.path.join(root, d))
    recorded = os.path.join(root, 'stats_dir', 'precomputed_stats.h5')
    kept = os.path.join(root, 'keep', 'right_stats.h5')
    stale = os.path.join(root, 'keep', 'stale_stats.h5')
    RM.build_stats(kept, {lf: 3 for lf in RM.LEAVES})
    # an earlier run of the pipeline on another taxonomy left this
    RM.build_stats(stale, {lf: 3 for lf in RM.LEAVES},
                   klass={'c0': 'A', 'c1': 'B', 'c2': 'A', 'c3': 'B',
                          'c4': 'A'})
    mpath = os.path.join(root, 'marker_dir', 'reference_markers.h5')
    shutil.copy(st['path'], mpath)
    with h5py.File(mpath, 'a') as f:
        f.create_dataset('metadata', data=json.dumps(
            {'precomputed_path': recorded}).encode('utf-8'))
    LK.update(root=root, recorded=recorded, kept=kept, stale=stale,
              marker=mpath,
              neighbour=os.path.join(root, 'marker_dir',
                                     'precomputed_stats.h5'))
    saved = getattr(core.CUR, '_mp_epoch', 0)
    shutil.copy(kept, recorded)
    LK['base'] = _lookup(1, False)[0]
    if core.CUR is not None:
        core.CUR._mp_epoch = saved
    return LK


TWO = {}


def two_reference_files():
    """two reference-marker files (real marker stage, different
    settings) made from two statistics files that hold equally many cells
    of every cluster - every parent is a tie between the two"""
    if TWO:
        return TWO
    import h5py
    import json
    import cell_type_mapper.diff_exp.markers as MK
    root = os.path.join(sandbox_root(), 'two_refs')
    shutil.rmtree(root, ignore_errors=True)
    os.makedirs(os.path.join(root, 'scratch'))
    saved = getattr(core.CUR, '_mp_epoch', 0)
    refs = []
    for tag, kw in (('a', dict(exact_penetrance=True)),
                    ('b', dict(exact_penetrance=False, n_valid=1,
                               gene_list=['g0', 'g1', 'g2', 'g3']))):
        stats = os.path.join(root, f'stats_{tag}.h5')
        tree, _ = RM.build_stats(stats, {lf: 3 for lf in RM.LEAVES})
        out = os.path.join(root, f'reference_markers_{tag}.h5')
        mpmodel.SCHED.reset(K=0)
        with warnings.catch_warnings():
            warnings.simplefilter('ignore')
            MK.find_markers_for_all_taxonomy_pairs(
                stats, tree, out, n_processors=1,
                tmp_dir=os.path.join(root, 'scratch'), max_gb=1, **kw)
        with h5py.File(out, 'a') as f:
            f.create_dataset('metadata', data=json.dumps(
                {'precomputed_path': stats}).encode('utf-8'))
        refs.append(out)
    if core.CUR is not None:
        core.CUR._mp_epoch = saved
    TWO.update(root=root, refs=refs)
    return TWO


def lookup_two_refs(K=0):
    import cell_type_mapper.type_assignment.marker_cache_v2 as MC
    two = two_reference_files()
    mpmodel.SCHED.reset(K=K)
    try:
        with warnings.catch_warnings():
            warnings.simplefilter('ignore')
            out = MC.create_marker_gene_lookup_from_ref_list(
                reference_marker_path_list=list(two['refs']),
                query_gene_names=['q_only_gene'] + list(RM.GENES),
                n_per_utility=1, n_per_utility_override=None,
                n_processors=1, behemoth_cutoff=5000000,
                tmp_dir=os.path.join(two['root'], 'scratch'))
        return out, None
    except Exception as e:
        return None, e


def _lookup(nproc, search, K=0):
    import cell_type_mapper.type_assignment.marker_cache_v2 as MC
    mpmodel.SCHED.reset(K=K)
    try:
        with warnings.catch_warnings():
            warnings.simplefilter('ignore')
            out = MC.create_marker_gene_lookup_from_ref_list(
                reference_marker_path_list=[LK['marker']],
                query_gene_names=['q_only_gene'] + list(RM.GENES),
                n_per_utility=1, n_per_utility_override=None,
                n_processors=nproc, behemoth_cutoff=5000000,
                tmp_dir=os.path.join(LK['root'], 'scratch'),
                search_for_stats_file=search)
        return out, None
    except Exception as e:
        return None, e


def run_lookup(ctx, case):
    """query-marker stage from the reference-marker file list: which
    statistics file it consults"""
    lk = lookup_files()
    for p in (lk['recorded'], lk['neighbour']):
        if os.path.exists(p):
            os.unlink(p)
    at_recorded = ctx.flag('statistics_file_still_at_recorded_path')
    if at_recorded:
        shutil.copy(lk['kept'], lk['recorded'])
    nb = ['nothing', 'right', 'stale'][ctx.choice(
        'same_named_file_next_to_marker_file', 3)]
    if nb != 'nothing':
        shutil.copy(lk['kept'] if nb == 'right' else lk['stale'],
                    lk['neighbour'])
    search = ctx.flag('search_for_stats_file')
    nproc = 1 + ctx.choice('n_processors-1', 2)
    out, raised = _lookup(nproc, search, K=case.get('K', 0))
    return {'out': out, 'raised': raised, 'at_recorded': at_recorded,
            'neighbour': nb, 'search': search, 'base': lk['base'],
            'scratch': os.path.join(lk['root'], 'scratch')}


def check_selection(ctx, res):
    tree, mk = res['tree'], res['mk']
    leaves = sorted(tree.all_leaves)
    pairs = list(itertools.combinations(leaves, 2))
    up, down = RM.by_pair_sets(mk, 'up'), RM.by_pair_sets(mk, 'down')
    genes = list(RM.GENES)
    inq = dict(zip(genes, res['inq']))
    out = res['out']
    ctx.check(set(out) == set(tree.all_parents),
              'one marker list per parent node')
    for parent, names in out.items():
        names = list(names)
        if parent is None:
            kids = tree.children(None, None)
            lv = {k: tree.as_leaves['class'][k] for k in kids}
        else:
            kids = tree.children(parent[0], parent[1])
            lv = {k: [k] for k in kids}
        rel = set()
        for a, b in itertools.combinations(kids, 2):
            for x in lv[a]:
                for y in lv[b]:
                    rel.add(tuple(sorted((x, y))))
        rel_idx = [i for i, pr in enumerate(pairs) if pr in rel]
        ctx.check(len(set(names)) == len(names), 'no duplicate genes')
        ctx.check(all(n in genes and inq[n] for n in names),
                  'selected genes occur in the query')
        if not rel_idx:
            ctx.check(names == [], 'nothing to discriminate => no markers')
            continue
        for n in names:
            g = genes.index(n)
            ctx.check(any(g in up[p] or g in down[p] for p in rel_idx),
                      'each selected gene is a reference marker of a '
                      'pair the parent must discriminate')
        for p in rel_idx:
            marks = set(up[p]) | set(down[p])
            avail = sum(1 for g in marks if inq[genes[g]])
            got = sum(1 for n in names if genes.index(n) in marks)
            ctx.check(got >= min(2 * res['target'], avail),
                      'pair covered by min(2*target, available) selected '
                      'markers')
    if 'base' in res:
        # the order within a list is the order of choice and has no
        # meaning downstream (the marker cache re-sorts by gene index)
        ctx.check(res.get('base_raised') is None and res['base'] is not None
                  and {k: sorted(v) for k, v in res['base'].items()}
                  == {k: sorted(v) for k, v in out.items()},
                  'selected gene sets do not depend on the worker count '
                  'or on the large-parent threshold')
    left = os.listdir(res['scratch'])
    ctx.check(left == [], f'scratch directory empty afterwards: {left[:3]}')
