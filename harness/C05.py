"""C05 — row access is exact for every on-disk encoding and chunking.
Real functions: AnnDataRowIterator (+ _initialize_as_csc), CSRRowIterator,
DenseArrayRowIterator (__next__, get_chunk, get_batch, __getitem__),
sparse_utils.load_csr/_load_sparse/_csr_to_dense/_csc_to_dense/load_csc/
load_csr_chunk/_cull_columns/_load_disjoint_csr/merge_csr,
utils.merge_index_list, csc_to_csr.csc_to_csr_on_disk."""
import numpy as np

from symx import core
from symx.core import And, Or, Not, Implies, Sum
from harness.common import (Harness, patch, install_np, install_h5, shimmed,
                            arr, set_mode, Env, dense_from_bits, to_csr,
                            to_csc, same_value)
from harness.C13 import FloorModel, classify_tr

import cell_type_mapper.anndata_iterator.anndata_iterator as AI
import cell_type_mapper.utils.sparse_utils as SU
import cell_type_mapper.utils.csc_to_csr as M
import cell_type_mapper.utils.utils as UU


class FakeCsr:
    """scipy.sparse.csr_matrix((data, indices, indptr), shape).toarray()
    on symbolic values (the scipy constructor is trusted, not checked)"""

    def __init__(self, triple, shape=None):
        self.data, self.indices, self.indptr = triple
        self.shape = shape

    def toarray(self):
        from symx.npshim import sarr
        out = np.empty(self.shape, dtype=object)
        out.fill(0.0)
        ip = [int(x) for x in self.indptr]
        for r in range(self.shape[0]):
            for k in range(ip[r], ip[r + 1]):
                c = int(self.indices[k])
                out[r, c] = out[r, c] + self.data[k]
        return sarr(out)


class _Sp:
    csr_matrix = FakeCsr


class _Scipy:
    sparse = _Sp


def setup(case, mode):
    set_mode(mode)
    if shimmed(mode):
        install_np(AI, SU, M, UU)
        install_h5(AI, M)
        patch(AI, 'scipy', _Scipy)
    patch(AI, 'print', lambda *a, **k: None)


def write_h5ad_x(env, path, dense, enc, layer='X', dtype=np.float64,
                 dense_chunks=None):
    nr = len(dense)
    nc = len(dense[0])
    with env.File(path, 'w') as f:
        if enc == 'dense':
            vals = [[0.0 if v is None else v for v in row] for row in dense]
            if env.fake:
                from symx.npshim import sarr
                d = f.create_dataset(layer, data=sarr(vals), dtype=dtype,
                                     chunks=dense_chunks)
            else:
                d = f.create_dataset(layer, data=np.array(
                    [[float(v) for v in row] for row in vals], dtype=dtype),
                    chunks=dense_chunks)
            d.attrs.create(name='encoding-type', data='array')
        else:
            g = f.create_group(layer)
            ip, ix, dt = to_csr(dense) if enc == 'csr' else to_csc(dense)
            env.write_sparse(g, ip, ix, dt, dtype=dtype)
            g.attrs.create(name='encoding-type', data=f'{enc}_matrix')
            g.attrs.create(name='shape', data=np.array([nr, nc]))


def expect(dense, r, c):
    return 0.0 if dense[r][c] is None else dense[r][c]


def check_block(ctx, block, dense, rows, label):
    nc = len(dense[0])
    ok = tuple(block.shape) == (len(rows), nc)
    ctx.check(ok, f'{label}: block shape == (rows, n_cols)')
    if not ok:
        return
    for i, r in enumerate(rows):
        for c in range(nc):
            ctx.check(same_value(ctx, block[i, c], expect(dense, r, c)),
                      f'{label}: delivered value == stored value')


def h_iterate(ctx, case):
    nr, nc = case['shape']
    enc = case['enc']
    env = Env(ctx)
    dt = np.dtype(case.get('dtype', 'float64'))
    if dt.kind in 'iu':
        # 64-bit integer counts: values anywhere in the type's range
        from symx.npshim import LOSSLESS
        LOSSLESS['on'] = ctx.mode == 'sym'
        dense = dense_from_bits(ctx, 'x', nr, nc, -(2 ** 62), 2 ** 62,
                                ints_only=True)
    else:
        dense = dense_from_bits(ctx, 'x', nr, nc)
    layer = case.get('layer', 'X')
    path = env.path('q.h5ad')
    write_h5ad_x(env, path, dense, enc,
                 layer='X' if layer == 'X' else f'layers/{layer}',
                 dtype=dt.type)
    what = case.get('what', 'iter')
    chunk = ctx.int('row_chunk_size', 1, nr + 2) if what == 'iter' else 2
    if enc == 'csc':
        patch(M, 'max', FloorModel(ctx) if what == 'iter'
              else (lambda *a, **k: max(*a, **k)))
    keep_open = case.get('keep_open', True)
    try:
        it = AI.AnnDataRowIterator(path, row_chunk_size=chunk, layer=layer,
                                   tmp_dir=env.dir, max_gb=1,
                                   keep_open=keep_open)
        ctx.check(int(it.n_rows) == nr, 'n_rows == stored row count')
        if what == 'iter':
            seen = []
            first = True
            for blk, r0, r1 in it:
                if first and case.get('interleave'):
                    # random access in the middle of an iteration must
                    # not disturb it
                    a = ctx.choice('g0', nr)
                    b = a + 1 + ctx.choice('glen', nr - a)
                    blk2, _, _ = it.get_chunk(a, b)
                    check_block(ctx, blk2, dense, list(range(a, b)),
                                'get_chunk during iteration')
                    it.get_batch([nr - 1])
                first = False
                r0, r1 = int(r0), int(r1)
                ctx.check(r0 == len(seen) and r0 < r1 <= nr
                          and r1 - r0 <= int(chunk),
                          'chunks arrive in file order, contiguous, no '
                          'larger than requested')
                check_block(ctx, blk, dense, list(range(r0, r1)),
                            'iteration')
                seen += list(range(r0, r1))
            ctx.check(seen == list(range(nr)), 'every row exactly once')
        elif what == 'chunk':
            # arbitrary sub-range
            a = ctx.choice('g0', nr)
            b = a + 1 + ctx.choice('glen', nr - a)
            blk, r0, r1 = it.get_chunk(a, b)
            check_block(ctx, blk, dense, list(range(a, b)), 'get_chunk')
        elif what == 'batch_any':
            # any row list: empty, with repeated rows, in any order
            n = ctx.choice('batch_len', nr + 2)
            rows = [ctx.choice(f'batch_row[{i}]', nr) for i in range(n)]
            blk = it.get_batch(list(rows))
            check_block(ctx, blk, dense, rows, 'get_batch (any list)')
        else:
            # arbitrary duplicate-free row list, in the requested order
            rows = [r for r in ctx.perm('batch', nr)][:1 + ctx.choice(
                'batch_len', nr)]
            blk = it.get_batch(list(rows))
            check_block(ctx, blk, dense, rows, 'get_batch')
        del it
    except Exception as e:
        ctx.exception(e)
        return 'EXC ' + type(e).__name__
    ctx.reach('iterated')
    return 'ok'


def setup_load(case, mode):
    set_mode(mode)
    if shimmed(mode):
        install_np(SU, UU)


def h_loaders(ctx, case):
    """load_csr / load_csc / load_csr_chunk against the dense matrix"""
    nr, nc = case['shape']
    dense = dense_from_bits(ctx, 'x', nr, nc)
    ip, ix, dt = to_csr(dense)
    D = arr(ctx, dt) if dt else (arr(ctx, []) if ctx.mode == 'sym'
                                 else np.zeros(0))
    IX, IP = np.array(ix, dtype=int), np.array(ip, dtype=int)
    a = ctx.choice('r0', nr)
    b = a + 1 + ctx.choice('rlen', nr - a)
    c0 = ctx.choice('c0', nc)
    c1 = c0 + 1 + ctx.choice('clen', nc - c0)
    try:
        blk = SU.load_csr((a, b), nc, D, IX, IP)
        check_block(ctx, blk, dense, list(range(a, b)), 'load_csr')
        sub = SU.load_csr_chunk((a, b), (c0, c1), D, IX, IP)
        ok = tuple(sub.shape) == (b - a, c1 - c0)
        ctx.check(ok, 'load_csr_chunk shape')
        if ok:
            for i, r in enumerate(range(a, b)):
                for j, c in enumerate(range(c0, c1)):
                    ctx.check(same_value(ctx, sub[i, j],
                                         expect(dense, r, c)),
                              'load_csr_chunk value')
        cp, cx, cd = to_csc(dense)
        CD = arr(ctx, cd) if cd else (arr(ctx, []) if ctx.mode == 'sym'
                                      else np.zeros(0))
        blk = SU.load_csc((c0, c1), nr, CD, np.array(cx, dtype=int),
                          np.array(cp, dtype=int))
        ok = tuple(blk.shape) == (nr, c1 - c0)
        ctx.check(ok, 'load_csc shape')
        if ok:
            for r in range(nr):
                for j, c in enumerate(range(c0, c1)):
                    ctx.check(same_value(ctx, blk[r, j],
                                         expect(dense, r, c)),
                              'load_csc value')
    except Exception as e:
        ctx.exception(e)
        return 'EXC ' + type(e).__name__
    ctx.reach('loaded')
    return 'ok'


def classify(f, case):
    if case.get('enc') == 'csc':
        w = f['witness']
        nnz = sum(1 for k, v in w.items() if '.nz[' in k and v is True)
        if nnz == 0 and 'ValueError' in str(f.get('exc')) + f['label']:
            return ('F2:transpose-with-data-array-and-no-stored-entry:'
                    'chunks=(0,)')
    return None


FUNCS = ['AnnDataRowIterator.__init__/__next__/get_chunk/get_batch/'
         '_initialize_as_csc', 'CSRRowIterator', 'DenseArrayRowIterator',
         'h5_handler_manager', 'sparse_utils.load_csr', '_load_sparse',
         '_csr_to_dense', '_load_disjoint_csr', 'merge_csr',
         '_merge_csr_chunk', 'utils.merge_index_list',
         'csc_to_csr.csc_to_csr_on_disk',
         'csc_to_csr.transpose_sparse_matrix_on_disk']
STUBS = ['h5py -> in-memory model', 'scipy.sparse.csr_matrix(...).toarray() '
         '-> 12-line model (constructor trusted)',
         'builtin max in csc_to_csr -> generalised floor (see C13)']

DTYPES = ['bool', 'int8', 'uint8', 'int16', 'uint16', 'int32', 'uint32',
          'int64', 'uint64', 'float16', 'float32', 'float64']


def h_value_type(ctx, case):
    """the CSC-to-CSR conversion sizes its buffers by the value type:
    every numeric type anndata writes has a size (no type is refused)"""
    import cell_type_mapper.utils.csc_to_csr as CC
    dt = np.dtype(DTYPES[ctx.choice('value_type', len(DTYPES))])
    try:
        got = CC._get_bytes_for_type(dt)
    except Exception as e:
        ctx.exception(e, f'{type(e).__name__} for values of type {dt}: '
                      + str(e)[:60])
        return 'EXC'
    ctx.reach('sized')
    ctx.check(int(got) == dt.itemsize, f'bytes per value of {dt}')
    return str(dt)


HARNESSES = [
    Harness('value_type_sizes', h_value_type, cases=[{}],
            funcs=['csc_to_csr._get_bytes_for_type'],
            bounds='bool, the eight integer types, float16/32/64',
            expect_reach=['sized']),
    Harness('row_iterator', h_iterate, setup=setup,
            cases=[{'shape': [2, 2], 'enc': e, 'what': 'iter'} for e in
                   ('dense', 'csr', 'csc')]
            + [{'shape': [3, 2], 'enc': 'csr', 'what': 'iter'},
               {'shape': [1, 2], 'enc': 'csc', 'what': 'iter'},
               {'shape': [2, 2], 'enc': 'csr', 'layer': 'raw',
                'what': 'iter', 'keep_open': False},
               {'shape': [3, 1], 'enc': 'csr', 'what': 'iter',
                'interleave': True},
               {'shape': [3, 1], 'enc': 'dense', 'what': 'iter',
                'interleave': True},
               {'shape': [2, 2], 'enc': 'csc', 'what': 'iter',
                'dtype': 'int64'},
               {'shape': [2, 2], 'enc': 'csr', 'what': 'iter',
                'dtype': 'int64'},
               {'shape': [3, 2], 'enc': 'csr', 'what': 'batch'},
               {'shape': [2, 1], 'enc': 'csr', 'what': 'batch_any'},
               {'shape': [2, 1], 'enc': 'dense', 'what': 'batch_any'},
               {'shape': [2, 1], 'enc': 'csc', 'what': 'batch_any'},
               {'shape': [3, 2], 'enc': 'dense', 'what': 'batch'},
               {'shape': [2, 2], 'enc': 'csc', 'what': 'batch'},
               {'shape': [3, 2], 'enc': 'csr', 'what': 'chunk'},
               {'shape': [3, 2], 'enc': 'dense', 'what': 'chunk'}],
            thorough_cases=[{'shape': sh, 'enc': e, 'what': w,
                             'keep_open': ko}
                            for sh in ([2, 2], [3, 2], [2, 3], [1, 3])
                            for e in ('dense', 'csr', 'csc')
                            for w in ('iter', 'chunk', 'batch')
                            for ko in (True,)]
            + [{'shape': [2, 2], 'enc': e, 'layer': 'raw', 'what': 'iter',
                'keep_open': False} for e in ('dense', 'csr', 'csc')]
            + [{'shape': [3, 3], 'enc': 'csr', 'what': 'iter'},
               {'shape': [4, 2], 'enc': 'csr', 'what': 'batch'}],
            funcs=FUNCS, stubs=STUBS, classify=classify,
            bounds='every sparsity pattern of 2x2, 3x2, 1x2 (thorough also '
                   '2x3, 1x3) incl. empty rows/columns and no stored '
                   'entry; dense/CSR/CSC; X and a named layer; chunk size '
                   'symbolic in [1, rows+2]; every block size of the CSC '
                   'conversion; float64 values, and 64-bit integer values '
                   'anywhere in +-2^62 (a value must not pass through a '
                   'floating-point array); every contiguous sub-range; every '
                   'duplicate-free row list',
            outside='row lists with repeats (docstring: "set of row '
                    'indexes"); HDF5 chunk layout / dtype conversion in '
                    'libhdf5; free-disk-space branch',
            expect_reach=['iterated'], selftest=8, split=64),
    Harness('sparse_loaders', h_loaders, setup=setup_load,
            cases=[{'shape': [2, 2]}, {'shape': [2, 3]}],
            thorough_cases=[{'shape': [2, 2]}, {'shape': [2, 3]},
                            {'shape': [3, 3]}],
            funcs=['sparse_utils.load_csr', 'load_csc', 'load_csr_chunk',
                   '_load_sparse', '_csr_to_dense', '_csc_to_dense',
                   '_cull_columns'],
            bounds='every pattern of 2x2, 2x3 (thorough 3x3), every row '
                   'and column sub-range, symbolic values',
            expect_reach=['loaded'], selftest=20, split=32),
]
