"""Mapping-stage harness: the real cli.from_specified_markers.run_mapping
called with a dict configuration on real files (real h5py / anndata /
pandas), the worker processes replaced by the multiprocessing model
(inline, solver-chosen schedule and faults).  The solver enumerates
configurations, crash points and stale-file placements; data values are
fixed concrete numbers (this stage is I/O-driven code, every obligation
is evaluated on the files the run leaves behind)."""
import hashlib
import json
import os
import shutil
import warnings

import numpy as np

from symx import core, mpmodel
from harness.common import patch, sandbox_root

import cell_type_mapper.type_assignment.election as el
import cell_type_mapper.cli.from_specified_markers as FSM
from cell_type_mapper.taxonomy.taxonomy_tree import TaxonomyTree

LEVELS = ['class', 'subclass', 'cluster']
TREE = {
    'hierarchy': LEVELS,
    'class': {'clsB': ['subB', 'subC'], 'clsA': ['subA']},
    'subclass': {'subA': ['c1', 'c0'], 'subB': ['c2'], 'subC': ['c3, x']},
    'cluster': {'c0': [], 'c1': [], 'c2': [], 'c3, x': []},
}
NAME_MAPPER = {
    'class': {'clsA': {'name': 'Class "A"'}, 'clsB': {'name': 'Class, B'}},
    'subclass': {'subA': {'name': 'Sub A'}, 'subB': {'name': 'Sub B'},
                 'subC': {'name': 'Sub C'}},
    'cluster': {'c0': {'name': 'zero', 'alias': '10'},
                'c1': {'name': 'one', 'alias': '11'},
                'c2': {'name': 'two', 'alias': '12'},
                'c3, x': {'name': 'three, x', 'alias': '13'}},
}
REF_GENES = ['g3', 'g0', 'g5', 'g1', 'g6', 'g4', 'g2']   # g6: not in query
LEAVES = ['c0', 'c1', 'c2', 'c3, x']
# raw-count profiles of the leaves (per gene name)
PROFILE = {
    'c0': {'g0': 60, 'g1': 5, 'g2': 2, 'g3': 1, 'g4': 9, 'g5': 3, 'g6': 4},
    'c1': {'g0': 4, 'g1': 70, 'g2': 3, 'g3': 2, 'g4': 1, 'g5': 8, 'g6': 9},
    'c2': {'g0': 2, 'g1': 3, 'g2': 55, 'g3': 40, 'g4': 2, 'g5': 1,
           'g6': 2},
    'c3, x': {'g0': 1, 'g1': 2, 'g2': 6, 'g3': 3, 'g4': 65, 'g5': 30,
              'g6': 7},
}
MARKERS = {
    'None': ['g0', 'g1', 'g2', 'g4', 'g3'],
    'class/clsA': ['g0', 'g1'],
    'class/clsB': ['g2', 'g4', 'g5'],
    'subclass/subA': ['g0', 'g1', 'g5'],
    'subclass/subB': ['g3'],
    'subclass/subC': ['g4'],
}
QUERY_GENES = ['g1', 'qx', 'g0', 'g2', 'g3', 'g5', 'g4']
QUERY_CELLS = ['q_c1', 'q_c3', 'q_mix', 'q_c0', 'q_c2']


def log2cpm(v):
    v = np.asarray(v, dtype=float)
    return np.log2(1.0 + 1.0e6 * v / v.sum())


HIERARCHY_MAPPER = {'class': 'CCN_class', 'subclass': 'CCN_subclass',
                    'cluster': 'CCN_cluster'}


def tree_data(with_names=True, drop=None, flat=False, hmap=False,
              shared_label=False, childless=False, slash=False):
    d = json.loads(json.dumps(TREE))
    nm = json.loads(json.dumps(NAME_MAPPER))
    if slash:
        # a node label with the separator of the marker-table keys in it
        # (as in "L2/3 IT")
        d['class']['cls/B'] = d['class'].pop('clsB')
        nm['class']['cls/B'] = nm['class'].pop('clsB')
    if childless:
        # inner nodes without children (the validator accepts them); with
        # a count, that many of them (index types of the HDF5 output)
        d['class']['clsZ'] = []
        nm['class']['clsZ'] = {'name': 'class without subclasses'}
        extra = {f'a_childless_{i:03d}': [] for i in
                 range(int(childless) - 1 if childless is not True else 0)}
        if extra:
            # listed before the classes that have cells (node indexes of
            # the HDF5 output follow this order)
            extra.update(d['class'])
            d['class'] = extra
    if shared_label:
        # the label 'c2' is used at two levels (subclass and cluster)
        # with different display names
        d['class']['clsB'] = ['c2', 'subC']
        d['subclass']['c2'] = d['subclass'].pop('subB')
        nm['subclass']['c2'] = {'name': 'Sub B (shares its label)'}
        nm['subclass'].pop('subB')
    if with_names:
        d['name_mapper'] = nm
    if hmap == 'tricky':
        # readable level names that contain the words the CSV writer
        # looks for in its column names
        d['hierarchy_mapper'] = {'class': 'class_label',
                                 'subclass': 'subclass name',
                                 'cluster': 'cluster_alias'}
    elif hmap:
        d['hierarchy_mapper'] = dict(HIERARCHY_MAPPER)
    t = TaxonomyTree(data=d)
    if drop is not None:
        t = t.drop_level(drop)
    if flat:
        t = t.flatten()
    return t


def write_stats(path, tree):
    import h5py
    leaves = sorted(LEAVES)
    n = 4
    prof = np.array([log2cpm([PROFILE[lf][g] for g in REF_GENES])
                     for lf in leaves])
    with h5py.File(path, 'w') as f:
        f.create_dataset('taxonomy_tree',
                         data=tree.to_str().encode('utf-8'))
        f.create_dataset('col_names',
                         data=json.dumps(REF_GENES).encode('utf-8'))
        f.create_dataset('cluster_to_row', data=json.dumps(
            {lf: i for i, lf in enumerate(leaves)}).encode('utf-8'))
        f.create_dataset('n_cells', data=np.full(len(leaves), n))
        f.create_dataset('sum', data=prof * n)
        f.create_dataset('sumsq', data=prof ** 2 * n)
        for k in ('gt0', 'gt1', 'ge1'):
            f.create_dataset(k, data=(prof > 1).astype(int) * n)


def write_query(path, enc='dense', raw=True, cells=None, genes=None,
                dtype=None):
    import anndata
    import pandas as pd
    import scipy.sparse as sp
    cells = cells or QUERY_CELLS
    genes = genes or QUERY_GENES
    rows = []
    for c in cells:
        if c == 'q_mix':
            p = {g: PROFILE['c0'][g] + PROFILE['c2'][g] for g in REF_GENES}
        else:
            p = PROFILE[{'q_c0': 'c0', 'q_c1': 'c1', 'q_c2': 'c2',
                         'q_c3': 'c3, x'}[c]]
        rows.append([float(p.get(g, 7)) for g in genes])
    X = np.array(rows)
    if not raw:
        X = np.array([np.log2(1.0 + 1.0e6 * r / r.sum()) for r in X])
    if dtype is not None:
        X = X.astype(dtype)
    if enc == 'csr':
        X = sp.csr_matrix(X)
    elif enc == 'csc':
        X = sp.csc_matrix(X)
    a = anndata.AnnData(X=X, obs=pd.DataFrame(index=cells),
                        var=pd.DataFrame(index=genes))
    a.uns['something'] = 'kept'
    a.obsm['coords'] = np.arange(2 * len(cells)).reshape(len(cells), 2)
    with warnings.catch_warnings():
        warnings.simplefilter('ignore')
        a.write_h5ad(path)


class Inputs:
    """input files of one job (never modified by a correct run)"""

    def __init__(self, with_names=True, hmap=False, shared_label=False,
                 childless=False, slash=False):
        root = sandbox_root()
        self.dir = os.path.join(root, 'inputs')
        shutil.rmtree(self.dir, ignore_errors=True)
        os.makedirs(self.dir)
        self.tree = tree_data(with_names, hmap=hmap,
                              shared_label=shared_label,
                              childless=childless, slash=slash)
        self.shared_label = shared_label
        self.stats = os.path.join(self.dir, 'reference_stats.h5')
        write_stats(self.stats, self.tree)
        self.markers = os.path.join(self.dir, 'marker_lookup.json')
        mk = dict(MARKERS)
        if shared_label:
            mk['subclass/c2'] = mk.pop('subclass/subB')
        if slash:
            mk['class/cls/B'] = mk.pop('class/clsB')
        self.marker_table = mk
        json.dump(mk, open(self.markers, 'w'))
        self.queries = {}

    def query(self, enc='dense', raw=True, dtype=None):
        k = (enc, raw, dtype)
        if k not in self.queries:
            p = os.path.join(self.dir,
                             f"query_{enc}_{'raw' if raw else 'norm'}"
                             f"{'_' + dtype if dtype else ''}.h5ad")
            write_query(p, enc, raw, dtype=dtype)
            self.queries[k] = p
        return self.queries[k]

    def stats_for(self, tree, tag):
        p = os.path.join(self.dir, f"reference_stats_{tag}.h5")
        if not os.path.exists(p):
            write_stats(p, tree)
        return p

    def markers_file(self, table, tag):
        p = os.path.join(self.dir, f"marker_lookup_{tag}.json")
        json.dump(table, open(p, 'w'))
        return p

    def digests(self):
        out = {}
        for n in sorted(os.listdir(self.dir)):
            out[n] = hashlib.md5(open(os.path.join(self.dir, n),
                                      'rb').read()).hexdigest()
        return out


def make_config(inp, work, **kw):
    """configuration dict as FromSpecifiedMarkersSchema would deliver"""
    ta = dict(n_processors=kw.pop('n_processors', 2),
              chunk_size=kw.pop('chunk_size', 2),
              bootstrap_factor=kw.pop('bootstrap_factor', 0.9),
              bootstrap_factor_lookup=None,
              bootstrap_iteration=kw.pop('bootstrap_iteration', 20),
              rng_seed=kw.pop('rng_seed', 1234),
              n_runners_up=kw.pop('n_runners_up', 2),
              normalization=kw.pop('normalization', 'raw'),
              min_markers=kw.pop('min_markers', 2))
    cfg = dict(
        cloud_safe=False,
        extended_result_dir=work['out'],
        tmp_dir=work['scratch'],
        summary_metadata_path=None,
        query_path=inp.query(kw.pop('enc', 'dense'),
                             ta['normalization'] == 'raw',
                             kw.pop('query_dtype', None)),
        precomputed_stats={'path': inp.stats},
        drop_level=None,
        query_markers={'serialized_lookup': inp.markers},
        flatten=False, map_to_ensembl=False, max_gb=1,
        csv_result_path=os.path.join(work['out'], 'result.csv'),
        extended_result_path=os.path.join(work['out'], 'result.json'),
        obsm_key=None, obsm_clobber=False,
        log_path=os.path.join(work['out'], 'log.txt'),
        hdf5_result_path=os.path.join(work['out'], 'result.h5'),
        type_assignment=ta)
    for k, v in kw.items():
        if k not in cfg:
            raise KeyError(k)
        cfg[k] = v
    return cfg


_N = [0]


def new_work(tag=''):
    root = sandbox_root()
    _N[0] += 1
    base = os.path.join(root, f"run{_N[0]}{tag}")
    work = {'base': base, 'scratch': os.path.join(base, 'scratch dir'),
            'out': os.path.join(base, 'outputs')}
    for d in (work['scratch'], work['out']):
        os.makedirs(d)
    return work


def drop_work(work):
    shutil.rmtree(work['base'], ignore_errors=True)


def setup(case, mode):
    warnings.simplefilter('ignore')
    patch(el, 'multiprocessing', mpmodel.multiprocessing)
    patch(el, 'print_timing', lambda **k: None)
    patch(FSM, 'print', lambda *a, **k: None)
    import cell_type_mapper.anndata_iterator.anndata_iterator as AI
    patch(AI, 'print', lambda *a, **k: None)


def run(cfg, K=0, faults=False, fault_modes=None, fault_steps=1):
    """run_mapping under the multiprocessing model; returns
    dict(raised, outputs...)"""
    mpmodel.SCHED.reset(K=K, faults=faults, fault_modes=fault_modes,
                        fault_steps=fault_steps)
    raised = None
    try:
        FSM.run_mapping(cfg, cfg['extended_result_path'],
                        log_path=cfg['log_path'],
                        hdf5_output_path=cfg['hdf5_result_path'])
    except Exception as e:
        raised = e
    res = {'raised': raised, 'outcome': dict(mpmodel.SCHED.outcome)}
    p = cfg['extended_result_path']
    res['json'] = json.load(open(p)) if p and os.path.exists(p) else None
    p = cfg['csv_result_path']
    res['csv'] = open(p).read() if p and os.path.exists(p) else None
    p = cfg['log_path']
    res['log'] = open(p).read() if p and os.path.exists(p) else None
    res['h5'] = cfg['hdf5_result_path'] \
        if cfg['hdf5_result_path'] and \
        os.path.exists(cfg['hdf5_result_path']) else None
    return res


def listing(d):
    out = []
    for r, ds, fs in os.walk(d):
        for n in ds + fs:
            out.append(os.path.relpath(os.path.join(r, n), d))
    return sorted(out)
