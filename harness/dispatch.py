"""Shared harness body: the real mapping dispatch
(election_runner.run_type_assignment_on_h5ad ->
election.run_type_assignment_on_h5ad_cpu -> worker -> gather ->
output_utils.re_order_blob) under the multiprocessing model, with the
real row iterator on the h5 model.  Used by C01, C04, C06, C14."""
import json
import os

import numpy as np

from symx import core, mpmodel
from symx.core import And, Or, Not, Implies, Sum
from symx.npshim import RngModel, sarr
from harness.common import (patch, install_np, install_h5, shimmed, arr,
                            set_mode, Env)
from harness.C05 import write_h5ad_x

import cell_type_mapper.type_assignment.election as el
import cell_type_mapper.type_assignment.election_runner as er
import cell_type_mapper.utils.output_utils as ou
import cell_type_mapper.utils.multiprocessing_utils as mpu
import cell_type_mapper.anndata_iterator.anndata_iterator as AI
import cell_type_mapper.utils.sparse_utils as SU
import cell_type_mapper.cell_by_gene.cell_by_gene as CBG
import cell_type_mapper.cell_by_gene.utils as CBGU
import cell_type_mapper.utils.csc_to_csr as M
import cell_type_mapper.utils.utils as UU


class FakeDF:
    def __init__(self, names):
        class _I:
            values = np.array(names, dtype=object)
        self.index = _I()
        self._n = len(names)

    def __len__(self):
        return self._n


class JsonShim:
    """json for the per-chunk result files: objects are kept in memory
    (they hold symbolic values), a real placeholder file is written so
    that directory listings stay real"""
    STORE = {}

    def __init__(self):
        self.loads = json.loads
        self.dumps = json.dumps

    def load(self, fh):
        p = os.path.abspath(fh.name)
        if p in self.STORE:
            return list(self.STORE[p])
        # not written by this run (a file some other run left): its real
        # content
        return json.loads(open(p).read())


class SeededRng:
    """concrete stand-in for np.random.default_rng(seed): keeps the seed"""

    def __init__(self, seed):
        self.seed = seed


class ParentRng:
    """concrete-mode parent generator: draws come from the witness"""

    def __init__(self, ctx, tag='rng0'):
        self.ctx, self.tag, self.draws = ctx, tag, []

    def integers(self, lo, hi=None, **k):
        v = self.ctx.int(f"{self.tag}.int{len(self.draws)}", lo, hi - 1)
        self.draws.append(v)
        return v

    def spawn(self, n):
        return [SeededRng(('spawned', None, i)) for i in range(int(n))]


class _NpRandom:
    def __init__(self, log):
        self.log = log

    def default_rng(self, seed=None):
        r = SeededRng(seed)
        self.log.append(r)
        return r


class _NpProxy:
    def __getattr__(self, n):
        return getattr(np, n)


def setup(case, mode):
    set_mode(mode)
    if shimmed(mode):
        install_np(el, AI, SU, CBG, CBGU, M, UU)
        install_h5(el, AI, M)
    else:
        patch(el, 'np', _NpProxy())
    patch(el, 'multiprocessing', mpmodel.multiprocessing)
    patch(el, 'print_timing', lambda **k: None)
    patch(AI, 'print', lambda *a, **k: None)
    patch(el, 'reconcile_taxonomy_and_markers', lambda **k: (True, ''))
    patch(el, 'get_leaf_means', lambda **k: None)


def save_results_stub(result, path):
    mpmodel.step('save_results')
    JsonShim.STORE[os.path.abspath(path)] = list(result)
    with open(path, 'w') as f:
        f.write('placeholder')


def run_dispatch(ctx, case, faults=False, through_runner=True,
                 before=None):
    """returns dict(out=..., raised=..., names, tags, draws, procs)"""
    nrows = case['rows']
    enc = case.get('enc', 'dense')
    env = Env(ctx)
    names = [f"cell_{(5 * i + 2) % 7}_{i}" for i in range(nrows)]
    tags = [ctx.real(f"x[{i}]", 0, None) for i in range(nrows)]
    dense = [[t, None] for t in tags] if enc != 'dense' \
        else [[t, 0.0] for t in tags]
    qpath = env.path('query.h5ad')
    write_h5ad_x(env, qpath, dense, enc)
    cache = env.path('markers.h5')
    with env.File(cache, 'w') as f:
        f.create_dataset('query_gene_names',
                         data=json.dumps(['g0', 'g1']).encode('utf-8'))
        f.create_dataset('all_query_markers', data=np.array([0]))
    nproc = ctx.int('n_processors', 1, case.get('max_proc', 3))
    if case.get('chunk_choices'):
        cc = case['chunk_choices']
        chunk = cc[ctx.choice('chunk_choice', len(cc))]
    else:
        chunk = ctx.int('chunk_size', 1, nrows + 1)
    buffer_mode = case.get('buffer', False)
    mpmodel.SCHED.reset(K=case.get('K', 2), faults=faults,
                        fault_modes=case.get('fault_modes'),
                        fault_steps=case.get('fault_steps', 1))
    JsonShim.STORE.clear()
    seeded = []
    if ctx.mode == 'sym':
        rng = RngModel(tag='rng0')
    else:
        rng = ParentRng(ctx)
    # np.random.default_rng inside election -> keeps the seed it is given
    el.np.random = _NpRandom(seeded)
    patch(el, 'read_df_from_h5ad', lambda p, n: FakeDF(list(names)))
    patch(ou, 'read_df_from_h5ad',
          lambda h5ad_path, df_name: FakeDF(list(names)))
    patch(el, 'save_results', save_results_stub)
    patch(el, 'json', JsonShim())

    started = []

    def fake_rta(full_query_gene_data, rng, taxonomy_tree=None, **k):
        started.append(rng.seed)
        mpmodel.step('run_type_assignment')
        return [{'tag': full_query_gene_data.data[i, 0],
                 'n_genes': full_query_gene_data.n_genes,
                 'seed': rng.seed, 'L': {'assignment': 'n'}}
                for i in range(full_query_gene_data.n_cells)]
    patch(el, 'run_type_assignment', fake_rta)

    class _Tree:
        hierarchy = ['L']
    res = {'names': names, 'tags': tags, 'rng': rng, 'env': env,
           'nproc': nproc, 'chunk': chunk, 'qpath': qpath}
    if before is not None:
        before(env)
    try:
        if through_runner:
            out = er.run_type_assignment_on_h5ad(
                qpath, None, cache, _Tree(), nproc, chunk, {'None': 1.0},
                1, rng, n_assignments=2, normalization='log2CPM',
                tmp_dir=env.dir, results_output_path=env.dir
                if buffer_mode else None)
        else:
            out = el.run_type_assignment_on_h5ad_cpu(
                qpath, None, cache, _Tree(), nproc, chunk, {'None': 1.0},
                1, rng, n_assignments=2, tmp_dir=env.dir,
                results_output_path=env.dir if buffer_mode else None)
        res['out'], res['raised'] = out, None
    except Exception as e:
        res['out'], res['raised'] = None, e
    res['procs'] = list(mpmodel.SCHED.procs)
    res['order'] = list(mpmodel.SCHED.order)
    res['outcome'] = dict(mpmodel.SCHED.outcome)
    return res


def check_dispatch(ctx, res, case):
    """C01/C04 obligations on a successful dispatch"""
    names, tags, out = res['names'], res['tags'], res['out']
    nrows = len(names)
    procs = res['procs']
    ctx.check(len(out) == nrows, 'exactly one record per query cell')
    if len(out) != nrows:
        return
    # chunks tile [0, n) in order
    spans = [(int(p.kwargs['r0']), int(p.kwargs['r1'])) for p in procs]
    ok = spans and spans[0][0] == 0 and spans[-1][1] == nrows and all(
        a[1] == b[0] for a, b in zip(spans, spans[1:])) and all(
        a < b for a, b in spans)
    ctx.check(ok, 'chunks tile the rows exactly, in order')
    draws = res['rng'].draws
    ctx.check(len(draws) == len(procs), 'one seed drawn per chunk, in '
              'dispatch order')
    for i in range(nrows):
        rec = out[i]
        ctx.check(rec['cell_id'] == names[i],
                  'record i carries the identifier of cell i (query order)')
        ctx.check(same(ctx, rec['tag'], tags[i]),
                  'record i was computed from row i of the matrix')
        if ok:
            k = [j for j, (a, b) in enumerate(spans) if a <= i < b][0]
            ctx.check(same(ctx, rec['seed'], draws[k]) if k < len(draws)
                      else False,
                      'the generator of chunk k is seeded with the k-th '
                      'draw of the parent generator')
        ctx.check(rec['L'].get('directly_assigned') is True,
                  'voted levels flagged as directly assigned')


def same(ctx, a, b):
    if ctx.mode == 'sym':
        return core.same_term(a, b)
    return a == b
