"""C18 — the stages compose: cluster centroids map back to themselves.
Real functions: distance_utils.correlation_nearest_neighbors (+ kernels),
election.tally_votes / choose_node, matching.get_leaf_means,
score_utils.read_precomputed_stats / read_raw_precomputed_stats /
aggregate_stats; and the real run_mapping on real files for the
end-to-end statement."""
import json
import os
import warnings

import numpy as np

from symx import core
from symx.core import And, Or, Not, Implies, Sum
from harness.common import (Harness, patch, install_np, install_h5, shimmed,
                            arr, reals, ints, set_mode, Env, sarr)

import cell_type_mapper.type_assignment.election as el
import cell_type_mapper.utils.distance_utils as du
import cell_type_mapper.type_assignment.matching as MT
import cell_type_mapper.diff_exp.score_utils as SU
import cell_type_mapper.utils.utils as UU
import cell_type_mapper.cell_by_gene.cell_by_gene as CBG
import cell_type_mapper.taxonomy.taxonomy_tree as TT
from cell_type_mapper.taxonomy.taxonomy_tree import TaxonomyTree


# ------------------------------------------------------------ kernel fact
def setup_kernel(case, mode):
    set_mode(mode)
    if shimmed(mode):
        install_np(el, du)


class _FixedRng:
    """generator whose draws are the subset the harness chose"""

    def __init__(self, S):
        self.S, self.choices = list(S), []

    def choice(self, a, size=None, replace=True, **k):
        assert replace is False and int(size) == len(self.S), \
            (size, self.S)
        self.choices.append(list(self.S))
        return np.array(self.S, dtype=np.int64)


def h_centroid_kernel(ctx, case):
    """a query row equal to reference row k gets every vote, each with
    correlation 1, on every gene subset on which the centroid is not
    constant and no other row is perfectly correlated with it"""
    nl, ng, iters = case['leaves'], case['genes'], case.get('iterations', 1)
    r = reals(ctx, 'ref', (nl, ng), 0, 8)
    k = ctx.choice('centroid', nl)
    # the gene subset of the bootstrap iteration(s)
    S = ctx.subset('subset', ng) if case.get('subsets') \
        else list(range(ng))
    if len(S) < 2:
        raise core.PathAbort('a single gene: every row is constant')
    f = len(S) / ng
    rs = r[:, S]
    q = r[k:k + 1, :].copy()
    try:
        corr = du.correlation_dot(arr(ctx, rs.copy()),
                                  arr(ctx, q[:, S].copy()))
    except Exception as e:
        ctx.exception(e)
        return 'EXC ' + type(e).__name__
    m = Sum(list(rs[k])) / len(S)
    nk = Sum([(x - m) * (x - m) for x in rs[k]])
    ctx.assume(nk > 0)              # centroid not constant on the subset
    # lemmas about the real kernel's output (then used as facts)
    ctx.lemma(ctx.eq(corr[k, 0], 1),
              'correlation of the centroid with its own leaf is 1')
    for j in range(nl):
        if j != k:
            # (plain floats in the self-test: allow for rounding)
            ctx.lemma(corr[j, 0] <= (1 if ctx.mode == 'sym' else 1 + 1e-9),
                      'no correlation exceeds 1')
            # the property's precondition: no other leaf is perfectly
            # correlated with the centroid on the genes used
            ctx.assume(Not(ctx.eq(corr[j, 0], 1)))
    try:
        votes, csum = el.tally_votes(arr(ctx, q), arr(ctx, r), f, iters,
                                     _FixedRng(S))
    except Exception as e:
        ctx.exception(e)
        return 'EXC ' + type(e).__name__
    ctx.reach('voted')
    ctx.check(ctx.eq(votes[0, k], iters),
              'the centroid\'s own leaf gets every vote')
    ctx.check(ctx.eq(csum[0, k], iters),
              'each of those votes carries correlation 1')
    for j in range(nl):
        if j != k:
            ctx.check(ctx.eq(votes[0, j], 0), 'no other leaf gets a vote')
    return 'ok'


# ------------------------------------------- leaf means through the names
def setup_means(case, mode):
    set_mode(mode)
    if shimmed(mode):
        install_np(MT, SU, UU, CBG)
        install_h5(SU, TT)


def h_leaf_means(ctx, case):
    """get_leaf_means: the mean profile of leaf <name> is (sum of that
    cluster's row)/n, whatever the row order of the clusters and the
    column order of the genes in the statistics file"""
    from harness.C09 import _write_stats
    leaves = ['clB', 'clA', 'clC'][:case['leaves']]
    if case.get('inner'):
        # a level above the leaves; the validator also accepts an inner
        # node that has no children
        data = {'hierarchy': ['class', 'cluster'],
                'class': {'clsA': list(leaves)},
                'cluster': {lf: [] for lf in leaves}}
        if ctx.flag('childless_inner_node'):
            data['class']['clsZ'] = []
        tree = TaxonomyTree(data=data)
    else:
        tree = TaxonomyTree(data={'hierarchy': ['cluster'],
                                  'cluster': {lf: [] for lf in leaves}})
    perm = ctx.perm('row_order', len(leaves))
    row_of = {lf: perm[i] for i, lf in enumerate(leaves)}
    genes = [['gB', 'gA', 'gC'][i] for i in ctx.perm('gene_order',
                                                     case['genes'])]
    env = Env(ctx)
    path = env.path('stats.h5')
    tabs = _write_stats(ctx, env, path, 's', leaves, row_of, genes, tree,
                       concrete_counts=True)
    for lf in leaves:
        n = tabs['n_cells'][row_of[lf]]
        if case.get('empty_leaves'):
            # a leaf without any cell in the reference has all-zero rows
            for g in range(len(genes)):
                ctx.assume(Implies(n == 0, tabs['sum'][row_of[lf], g] == 0))
        else:
            ctx.assume(n >= 1)
    core.NONFINITE['raise'] = True
    try:
        m = MT.get_leaf_means(tree, path, for_marker_selection=False)
    except Exception as e:
        ctx.exception(e)
        return 'EXC ' + type(e).__name__
    finally:
        core.NONFINITE['raise'] = False
    ctx.reach('read')
    ctx.check(list(m.cell_identifiers) == sorted(leaves) and
              list(m.gene_identifiers) == genes and
              m.normalization == 'log2CPM',
              'rows are the leaves by name (sorted), columns the genes of '
              'the statistics file')
    for i, lf in enumerate(sorted(leaves)):
        n = tabs['n_cells'][row_of[lf]]
        for g in range(len(genes)):
            if ctx.mode != 'sym':
                ctx.check(bool(np.isfinite(m.data[i, g])),
                          'mean profile is finite (no NaN for a leaf '
                          'without cells)')
            ctx.check(ctx.eq(m.data[i, g] * n, tabs['sum'][row_of[lf], g]),
                      'mean profile of a leaf == sum of its own row / its '
                      'cell count')
            ctx.check(Implies(n == 0, ctx.eq(m.data[i, g], 0)),
                      'a leaf without cells has a zero (not NaN) profile')
    return 'ok'


# ------------------------------------------------ end to end, real files
def _sc_setup(case, mode):
    from harness import stagechecks as SC
    SC.setup(case, mode)


def h_centroids_end_to_end(ctx, case):
    """query cells whose log2(CPM+1) profile equals a leaf's mean profile
    are assigned to that leaf and its ancestors with probability 1 and
    correlation 1, for every bootstrap factor / seed / gene order"""
    import anndata
    import pandas as pd
    from harness import stage as ST
    from harness import stagechecks as SC
    inp = SC.inputs(case)
    work = ST.new_work()
    order = ctx.perm('gene_order', 4)
    qgenes = [ST.REF_GENES[i] for i in order] + \
        [g for g in ST.REF_GENES[4:] if g != 'g6'] + ['qx']
    prof = {lf: dict(zip(ST.REF_GENES,
                         ST.log2cpm([ST.PROFILE[lf][g]
                                     for g in ST.REF_GENES])))
            for lf in ST.LEAVES}
    cells = [f"centroid_{i}" for i in range(len(ST.LEAVES))]
    X = np.array([[prof[lf].get(g, 0.123) for g in qgenes]
                  for lf in ST.LEAVES])
    qpath = os.path.join(work['base'], 'centroids.h5ad')
    with warnings.catch_warnings():
        warnings.simplefilter('ignore')
        anndata.AnnData(X=X, obs=pd.DataFrame(index=cells),
                        var=pd.DataFrame(index=qgenes)).write_h5ad(qpath)
    factor = [0.5, 0.9, 1.0][ctx.choice('factor', 3)]
    seed = [1, 77][ctx.choice('seed', 2)]
    cfg = ST.make_config(inp, work, normalization='log2CPM',
                         bootstrap_factor=factor, rng_seed=seed,
                         bootstrap_iteration=12,
                         n_processors=1 + ctx.choice('n_processors-1', 2))
    cfg['query_path'] = qpath
    # every shared gene is a marker at every parent: each bootstrap
    # subset then has >= 3 genes, on which distinct real-valued profiles
    # are not perfectly correlated (the property's precondition)
    shared = [g for g in ST.REF_GENES if g != 'g6']
    cfg['query_markers'] = {'serialized_lookup': inp.markers_file(
        {k: list(shared) for k in ST.MARKERS}, 'all_shared')}
    res = ST.run(cfg)
    if res['raised'] is not None:
        ctx.exception(res['raised'])
        ST.drop_work(work)
        return 'EXC ' + type(res['raised']).__name__
    ctx.reach('mapped')
    for cell, lf in zip(res['json']['results'], ST.LEAVES):
        anc = inp.tree.parents('cluster', lf)
        anc['cluster'] = lf
        for lv in ST.LEVELS:
            rec = cell[lv]
            ctx.check(rec['assignment'] == anc[lv],
                      'a centroid is assigned to its own leaf and its '
                      'ancestors')
            ctx.check(rec['bootstrapping_probability'] == 1.0,
                      'with bootstrapping probability 1')
            ctx.check(abs(rec['avg_correlation'] - 1.0) < 1e-9,
                      'and average correlation 1')
    ST.drop_work(work)
    return 'ok'


def _rs_setup(case, mode):
    from harness import refstats as RS
    RS.setup(case, mode)


def _c09_stage(ctx, case):
    from harness import C09
    return C09.h_stage(ctx, case)


def _tally_setup(case, mode):
    from harness import C02
    C02.setup_tally(case, mode)


def _tally(ctx, case):
    from harness import C02
    return C02.h_tally(ctx, case)


HARNESSES = [
    Harness('statistics_name_tables', _c09_stage, setup=_rs_setup,
            cases=[{'files': 2, 'cells': 2, 'genes': 1, 'clusters': 2,
                    'max_proc': 2},
                   {'files': 3, 'cells': 1, 'genes': 1, 'clusters': 2,
                    'max_proc': 1, 'via_tree': True},
                   {'files': 2, 'cells': 1, 'genes': 1, 'clusters': 2,
                    'max_proc': 1, 'same_basename': True}],
            funcs=['precompute_from_anndata (see C09 statistics_stage)'],
            stubs=['see C09'],
            bounds='2-3 reference files with their own cell-name tables; a '
                   'worker whose rows span a file boundary must route '
                   'cells by the names of the file they come from',
            expect_reach=['written'], split=32),
    Harness('centroid_vote_counter', _tally, setup=_tally_setup,
            cases=[{'markers': 1, 'cells': 1, 'refs': 1, 'iterations': n}
                   for n in (255, 256)],
            thorough_cases=[{'markers': 1, 'cells': 1, 'refs': 1,
                             'iterations': n}
                            for n in (255, 256, 65535, 65536)],
            funcs=['election.tally_votes', 'utils.choose_int_dtype'],
            stubs=['see C02 tally_votes'],
            bounds='a cell that wins every one of 255 / 256 (65535 / '
                   '65536) iterations: the counter must hold the count',
            expect_reach=['returned']),
    Harness('centroid_kernel', h_centroid_kernel, setup=setup_kernel,
            cases=[{'leaves': 2, 'genes': 3}],
            thorough_cases=[{'leaves': 2, 'genes': 3},
                            {'leaves': 2, 'genes': 3, 'subsets': True},
                            {'leaves': 3, 'genes': 3}],
            funcs=['election.tally_votes',
                   'distance_utils.correlation_nearest_neighbors',
                   'correlation_dot', '_subtract_mean_and_normalize_cpu'],
            stubs=['rng.choice -> returns the solver-chosen subset',
                   'sqrt -> fresh s >= 0 with s*s == x'],
            assumptions=['the centroid is not constant on the drawn gene '
                         'subset and no other leaf is perfectly '
                         'correlated with it on that subset (the '
                         'property\'s own precondition)'],
            bounds='2 (3) leaves x 3 genes, reference profiles symbolic '
                   'reals in [0,8], every choice of the centroid; factor 1 '
                   '(thorough: symbolic factor, every drawn subset of >= 2 '
                   'genes)',
            outside='floating-point rounding; subsets of a single gene '
                    '(every row is constant there)',
            expect_reach=['voted'], query_timeout_ms=120000, selftest=10),
    Harness('leaf_means_by_name', h_leaf_means, setup=setup_means,
            cases=[{'leaves': 2, 'genes': 2}, {'leaves': 3, 'genes': 1},
                   {'leaves': 2, 'genes': 1, 'empty_leaves': True},
                   {'leaves': 2, 'genes': 1, 'inner': True}],
            thorough_cases=[{'leaves': 3, 'genes': 3}],
            funcs=['matching.get_leaf_means',
                   'score_utils.read_precomputed_stats',
                   'read_raw_precomputed_stats', 'aggregate_stats',
                   'TaxonomyTree.as_leaves/all_leaves'],
            stubs=['h5py -> model'],
            bounds='2-3 leaves, 1-2 (3) genes, every row order of the '
                   'cluster table, every gene order, all tables symbolic',
            expect_reach=['read'], selftest=10, split=16),
    Harness('centroids_end_to_end', h_centroids_end_to_end,
            setup=_sc_setup, cases=[{}],
            funcs=['from_specified_markers.run_mapping', '_run_mapping',
                   'matching.get_leaf_means / assemble_query_data',
                   'marker_cache_v2.create_marker_cache_from_specified_'
                   'markers', 'election.*'],
            stubs=['multiprocessing -> model (workers inline)'],
            bounds='fixed separable reference (4 leaves, 3 levels, real '
                   'files); centroid query written in every order of 4 of '
                   'its genes plus a query-only gene; bootstrap factor in '
                   '{0.5, 0.9, 1}; two seeds; 1-2 workers',
            outside='the reference-statistics and marker stages feeding '
                    'the files (their outputs are checked in C09 / C11 / '
                    'C12)',
            expect_reach=['mapped'], split=32),
]
