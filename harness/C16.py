"""C16 — validation rewrites identifiers and integers without altering the
data.  Real functions: validation.validate_h5ad / _validate_h5ad /
_check_input_gene_names, validation.utils.round_x_to_integers /
_round_dense_x_to_integers / _round_sparse_x_to_integers / is_x_integers /
get_minmax_x_from_h5ad / map_gene_ids_in_var, utils.choose_int_dtype,
gene_id.GeneIdMapper.map_gene_identifiers / _post_process /
RandomNameGenerator, gene_id.utils.is_ensembl, anndata_utils.copy_layer_to_x,
h5_utils.copy_h5_excluding_data."""
import hashlib
import os
import warnings

import numpy as np

from symx import core
from symx.core import And, Or, Not, Implies, Sum
from harness.common import (Harness, patch, install_np, install_h5, shimmed,
                            arr, set_mode, Env, dense_from_bits,
                            sandbox_root)
from harness.C05 import write_h5ad_x

import cell_type_mapper.validation.utils as V
import cell_type_mapper.utils.utils as UU
import cell_type_mapper.gene_id.gene_id_mapper as GM
import cell_type_mapper.gene_id.utils as GU

LOOKUP = {'symA': 'ENSG0007', 'symB': 'ENSG0008', 'symA2': 'ENSG0007',
          'symC': 'ENSG0001'}


# --------------------------------------------------- rounding (symbolic)
def setup_round(case, mode):
    set_mode(mode)
    if shimmed(mode):
        install_np(V, UU)
        install_h5(V)


def h_round(ctx, case):
    """round_x_to_integers + choose_int_dtype: every value moves by at
    most 1/2 to an integer that the chosen integer type can hold;
    integer-valued input is left alone"""
    from symx.npshim import RANGE_CHECK
    nr, nc = case['shape']
    enc = case['enc']
    lo, hi = case.get('range', (-200, 70000))
    env = Env(ctx)
    dense = dense_from_bits(ctx, 'x', nr, nc, lo, hi) if enc != 'dense' \
        else [[ctx.real(f"x[{r},{c}]", lo, hi) for c in range(nc)]
              for r in range(nr)]
    path = env.path('v.h5ad')
    ch = case.get('chunks')
    write_h5ad_x(env, path, dense, enc, dense_chunks=tuple(ch)
                 if (ch and enc == 'dense') else None)
    if ch and enc != 'dense':
        # the value array stored in HDF5 chunks of the given length
        with env.File(path, 'a') as f:
            d = f['X/data'][()]
            if len(d) >= ch[0]:
                del f['X/data']
                f['X'].create_dataset('data', data=d, chunks=(ch[0],),
                                      dtype=np.float64)
    if enc == 'csc':
        # stored column by column
        vals = [dense[r][c] for c in range(nc) for r in range(nr)
                if dense[r][c] is not None]
    else:
        vals = [v for row in dense for v in row if v is not None]
    if not vals:
        raise core.PathAbort('no stored value')
    try:
        is_int = V.is_x_integers(path)
        mm = V.get_minmax_x_from_h5ad(path)
        dt = UU.choose_int_dtype(mm)
        if ctx.mode == 'sym':
            RANGE_CHECK['on'] = True
        V.round_x_to_integers(path, tmp_dir=env.dir, output_dtype=dt)
    except Exception as e:
        ctx.exception(e)
        return 'EXC ' + type(e).__name__
    finally:
        RANGE_CHECK['on'] = False
    ctx.reach('rounded')
    info = np.iinfo(dt)
    with env.File(path, 'r') as f:
        got = f['X'][()] if enc == 'dense' else f['X/data'][()]
    flat = list(np.asarray(got, dtype=object).ravel())
    ctx.check(len(flat) == len(vals), 'same number of stored values')
    # the code treats values within 1e-10 of an integer as integers
    TOL = 1.0e-10

    def near_int(v):
        if ctx.mode == 'sym':
            r = v.rint() if core.is_sym(v) else round(v)
            d = v - r
            return And(d <= TOL, d >= -TOL)
        return abs(float(v) - round(float(v))) <= TOL
    allint = And(*[near_int(v) for v in vals])
    for new, old in zip(flat, vals):
        d = new - old
        ctx.check(And(d <= 0.5, d >= -0.5),
                  'every value moves by at most one half')
        if ctx.mode == 'sym':
            import z3
            t = core._toreal(core.term(new))
            ctx.check(Or(allint, core.SBool(
                z3.ToReal(z3.ToInt(t)) == t)),
                'every value becomes an integer (unless all are integers '
                'to within 1e-10 already)')
        else:
            ctx.check(bool(allint) or float(new) == round(float(new)),
                      'every value becomes an integer')
        ctx.check(Implies(allint, ctx.eq(new, old)),
                  'integer-valued input is left unchanged')
        ctx.check(Or(allint, And(new >= int(info.min),
                                 new <= int(info.max))),
                  'the chosen integer type holds every rounded value')
    ctx.check(allint if bool(is_int) else Not(allint),
              'is_x_integers <=> all stored values are integers (to '
              'within 1e-10)')
    left = [n for n in os.listdir(env.dir) if n != 'v.h5ad']
    ctx.check(left == [], 'no scratch left behind')
    return str(np.dtype(dt))


# --------------------------------------------------------- identifiers
def h_identifiers(ctx, case):
    n = case['n']
    kinds = ['ENSG0001', 'ENSG0002.3', 'ENSMUSG0005', 'symA', 'symB',
             'symA2', 'symC', 'foo', 'bar.1', 'unmapped_0_x', 'ENS', 'ENSG']
    genes = [kinds[ctx.choice(f"gene[{i}]", len(kinds))] for i in range(n)]
    mapper = GM.GeneIdMapper(data=dict(LOOKUP))
    is_ens = [g in ('ENSG0001', 'ENSG0002.3', 'ENSMUSG0005') for g in genes]
    known = [(not e) and g in LOOKUP for g, e in zip(genes, is_ens)]
    n_unknown = sum(1 for e, k in zip(is_ens, known) if not e and not k)
    try:
        with warnings.catch_warnings():
            warnings.simplefilter('ignore')
            out = mapper.map_gene_identifiers(list(genes))
    except RuntimeError:
        ctx.reach('all unmappable')
        ctx.check(n_unknown == n, 'refused only when no gene could be '
                  'mapped')
        return 'refused'
    except Exception as e:
        ctx.exception(e)
        return 'EXC ' + type(e).__name__
    ctx.reach('mapped')
    mg = out['mapped_genes']
    ctx.check(len(mg) == n, 'same genes in the same order')
    ctx.check(out['n_unmapped'] == n_unknown and
              (n_unknown < n or not any(known) and not any(is_ens)
               and n == 0),
              'number of unmapped genes recorded')
    placeholders = []
    for g, m, e, k in zip(genes, mg, is_ens, known):
        if e:
            ctx.check(m == g.split('.')[0] and GU.is_ensembl(m)
                      and '.' not in m,
                      'Ensembl identifier kept, minus version suffix')
        elif k:
            ctx.check(m == LOOKUP[g], 'known symbol replaced by its '
                      'Ensembl identifier')
        else:
            placeholders.append(m)
            ctx.check(not GU.is_ensembl(m) and m not in LOOKUP.values(),
                      'unknown name replaced by a placeholder that is not '
                      'an Ensembl identifier')
    ctx.check(len(set(placeholders)) == len(placeholders),
              'placeholders are unique within the file')
    return 'ok'


# ------------------------------------------------- regular expression
def h_regex(ctx, case):
    """z3 string theory on the live pattern of is_ensembl: stripping the
    version suffix keeps an identifier an identifier; no placeholder name
    is in the language"""
    import z3
    GU.is_ensembl('x')
    pat = GU.is_ensembl.pattern.pattern
    lang = _regex_to_z3(pat)
    s = z3.String('s')
    dot = z3.StringVal('.')
    sol = z3.Solver()
    sol.set('timeout', 60000)
    # (1) s in L, s = pre.'.'.rest with no dot in pre (what
    # split('.')[0] returns)  =>  pre in L.  (without a dot s is kept)
    pre, rest = z3.String('pre'), z3.String('rest')
    sol.push()
    sol.add(z3.InRe(s, lang), s == z3.Concat(pre, dot, rest),
            z3.Not(z3.Contains(pre, dot)), z3.Not(z3.InRe(pre, lang)))
    r1 = sol.check()
    sol.pop()
    def decided(r, label):
        # unsat: the lemma holds; sat: it does not; anything else is
        # inconclusive, never a violation
        if str(r) in ('sat', 'unsat'):
            ctx.check(str(r) == 'unsat', label)
        else:
            ctx.stats.unknown += 1
            ctx.unknown_labels.append(label)
    decided(r1, 'version-stripped identifier is still an identifier '
            f'without a dot (solver: {r1})')
    # (1b) an identifier without a version suffix is made of letters and
    # digits only (a name like ENSG0001-1 or ENSG0001_2, as produced by
    # var_names_make_unique, is not an identifier to be kept verbatim)
    alnum = z3.Star(z3.Union(z3.Range('A', 'Z'), z3.Range('a', 'z'),
                             z3.Range('0', '9')))
    sol.push()
    nodot = z3.Star(z3.Union(z3.Range(chr(1), '-'), z3.Range('/', '~')))
    sol.add(z3.InRe(s, z3.Intersect(lang, nodot, z3.Complement(alnum))))
    r1b = sol.check()
    w1b = sol.model()[s].as_string() if str(r1b) == 'sat' else None
    sol.pop()
    decided(r1b, 'an identifier without a dot consists of letters and '
            f'digits only (solver: {r1b}, e.g. {w1b!r})')
    # (2) no placeholder name unmapped_<n>_<timestamp> is in L
    sol.push()
    sol.add(z3.InRe(s, lang), z3.PrefixOf(z3.StringVal('unmapped_'), s))
    r2 = sol.check()
    sol.pop()
    decided(r2, 'no placeholder name is an Ensembl identifier '
            f'(solver: {r2})')
    # (3) witnesses from the solver agree with the real function
    sol.push()
    sol.add(z3.InRe(s, lang), z3.Length(s) <= 10, z3.Contains(s, dot))
    if sol.check() == z3.sat:
        w = sol.model()[s].as_string()
        ctx.check(GU.is_ensembl(w) and GU.is_ensembl(w.split('.')[0]),
                  'solver witness accepted by the real is_ensembl')
    sol.pop()
    sol.push()
    sol.add(z3.Not(z3.InRe(s, lang)), z3.Length(s) <= 6, z3.Length(s) >= 4,
            z3.PrefixOf(z3.StringVal('ENS'), s),
            z3.InRe(s, z3.Star(z3.Union(z3.Range('A', 'Z'),
                                        z3.Range('0', '9'),
                                        z3.Re('.')))))
    if sol.check() == z3.sat:
        w = sol.model()[s].as_string()
        ctx.check(not GU.is_ensembl(w),
                  'solver non-member rejected by the real is_ensembl')
    sol.pop()
    ctx.reach('decided')
    return 'ok'


def _regex_to_z3(pat):
    """translator for the small regex dialect used by is_ensembl:
    literals, [a-b] classes, escaped characters, ( ) groups, + * ?"""
    import z3
    pos = [0]

    def atom():
        c = pat[pos[0]]
        if c == '(':
            pos[0] += 1
            r = seq()
            assert pat[pos[0]] == ')'
            pos[0] += 1
            return r
        if c == '[':
            pos[0] += 1
            parts = []
            while pat[pos[0]] != ']':
                a = pat[pos[0]]
                if pat[pos[0] + 1] == '-' and pat[pos[0] + 2] != ']':
                    parts.append(z3.Range(a, pat[pos[0] + 2]))
                    pos[0] += 3
                else:
                    parts.append(z3.Re(a))
                    pos[0] += 1
            pos[0] += 1
            return parts[0] if len(parts) == 1 else z3.Union(*parts)
        if c == '\\':
            pos[0] += 2
            return z3.Re(pat[pos[0] - 1])
        if c == '.':
            pos[0] += 1
            return z3.AllChar(z3.ReSort(z3.StringSort()))
        if c in '^$|{}':
            raise core.ShimGap(f'regex feature {c}')
        pos[0] += 1
        return z3.Re(c)

    def seq():
        items = []
        while pos[0] < len(pat) and pat[pos[0]] != ')':
            a = atom()
            if pos[0] < len(pat) and pat[pos[0]] in '+*?':
                q = pat[pos[0]]
                pos[0] += 1
                a = {'+': z3.Plus, '*': z3.Star, '?': z3.Option}[q](a)
            items.append(a)
        return items[0] if len(items) == 1 else z3.Concat(*items)
    r = seq()
    assert pos[0] == len(pat)
    return r


# ------------------------------------------- whole validation, real files
def setup_stage(case, mode):
    warnings.simplefilter('ignore')
    import cell_type_mapper.validation.validate_h5ad as VH
    patch(VH, 'print', lambda *a, **k: None)


GENE_KINDS = [('ENSG0001', 'ENSG0001'), ('ENSG0009', 'ENSG0009'),
              ('ENSG0002.3', 'ENSG0002'),
              ('symA', 'ENSG0007'), ('symB', 'ENSG0008'),
              ('symA2', 'ENSG0007'), ('symC', 'ENSG0001'), ('foo', None),
              ('', None), ('bar', None)]


def h_validate_stage(ctx, case):
    import anndata
    import pandas as pd
    import scipy.sparse as sp
    import cell_type_mapper.validation.validate_h5ad as VH
    from cell_type_mapper.utils.anndata_utils import (read_df_from_h5ad,
                                                      read_uns_from_h5ad)
    from cell_type_mapper.anndata_iterator.anndata_iterator import (
        AnnDataRowIterator)
    root = os.path.join(sandbox_root(), 'val')
    import shutil
    shutil.rmtree(root, ignore_errors=True)
    os.makedirs(os.path.join(root, 'out'))
    os.makedirs(os.path.join(root, 'scratch'))
    ncell, ng = 3, case.get('genes', 3)
    kinds = case.get('kinds') or list(range(len(GENE_KINDS)))
    gi = [kinds[ctx.choice(f"gene[{j}]", len(kinds))] for j in range(ng)]
    genes = [GENE_KINDS[k][0] for k in gi]
    cells = ['cellB', 'cellA', 'cellC']
    if ctx.flag('duplicate_cell'):
        cells[2] = 'cellB'
    mapped = [GENE_KINDS[k][1] for k in gi]
    unknown = [m is None for m in mapped]
    final = [m for m in mapped if m is not None]
    must_reject = (len(set(cells)) < 3 or len(set(genes)) < ng
                   or '' in genes or len(set(final)) < len(final)
                   or all(unknown))
    if must_reject:
        vk, enc, layer, round_to_int = 0, 'dense', 'X', True
    else:
        vk = ctx.choice('values', 4)   # ints, halves, boundaries, negative
        combos = case.get('storage') or [(e, l) for e in
                                         ('dense', 'csr', 'csc')
                                         for l in ('X', 'raw')]
        enc, layer = combos[ctx.choice('storage', len(combos))]
        round_to_int = ctx.flag('round_to_int')
    base = {0: [[0, 3, 5], [7, 0, 2], [1, 1, 0]],
            1: [[0.5, 3, 5.25], [7, 0, 2.5], [1.5, 1, 0]],
            2: [[255.5, 3, 0], [65535.5, 0, 2], [1, 254.5, 0]],
            3: [[-0.5, 3, 5], [7, 0, -2.4], [1, 1, 0]]}[vk]
    X = np.array(base, dtype=float)[:, :ng]
    M = X if enc == 'dense' else (sp.csr_matrix(X) if enc == 'csr'
                                  else sp.csc_matrix(X))
    obs = pd.DataFrame({'note': ['n1', 'n2', 'n3']}, index=cells)
    var = pd.DataFrame({'w': list(range(ng))}, index=genes)
    src = os.path.join(root, 'input.h5ad')
    try:
        if layer == 'X':
            a = anndata.AnnData(X=M, obs=obs, var=var)
        else:
            a = anndata.AnnData(X=np.zeros(X.shape), obs=obs, var=var,
                                layers={layer: M})
        a.uns['keep'] = 'me'
        a.write_h5ad(src)
    except Exception:
        raise core.PathAbort('anndata refuses to write this input')
    digest = hashlib.md5(open(src, 'rb').read()).hexdigest()
    mapper = GM.GeneIdMapper(data=dict(LOOKUP))
    raised = None
    try:
        out_path, warn = VH.validate_h5ad(
            src, mapper, log=None, expected_max=None,
            tmp_dir=os.path.join(root, 'scratch'), layer=layer,
            round_to_int=round_to_int,
            output_dir=os.path.join(root, 'out'))
    except Exception as e:
        raised = e
    ctx.check(hashlib.md5(open(src, 'rb').read()).hexdigest() == digest,
              'validating never modifies the input file')
    ctx.check(os.listdir(os.path.join(root, 'scratch')) == [],
              'scratch directory empty afterwards')
    if must_reject:
        ctx.reach('rejected input')
        ctx.check(raised is not None, 'duplicate cell ids, duplicate or '
                  'empty gene names, two genes mapping to one identifier '
                  'and files without any mappable gene are rejected')
        return 'rejected'
    if raised is not None:
        ctx.exception(raised)
        return 'EXC ' + type(raised).__name__
    nonint = bool((X != np.round(X)).any())
    needs_map = any(g != m for g, m in zip(genes, mapped))
    changed = layer != 'X' or needs_map or (round_to_int and nonint)
    if not changed:
        ctx.reach('no change')
        ctx.check(out_path is None and
                  os.listdir(os.path.join(root, 'out')) == [],
                  'a file needing no change yields no new file')
        return 'unchanged'
    ctx.reach('new file')
    ok = out_path is not None and os.path.exists(str(out_path))
    ctx.check(ok, 'a new file is written when something had to change')
    if not ok:
        return 'missing'
    obs2 = read_df_from_h5ad(out_path, 'obs')
    var2 = read_df_from_h5ad(out_path, 'var')
    ctx.check(list(obs2.index.values) == cells and
              list(obs2['note'].values) == ['n1', 'n2', 'n3'],
              'same cells in the same order with the same annotations')
    got_genes = list(var2.index.values)
    for g, m, gg in zip(genes, mapped, got_genes):
        if m is not None:
            ctx.check(gg == m, 'gene identifier == Ensembl id (minus '
                      'version) / id of the known symbol')
        else:
            ctx.check(not GU.is_ensembl(gg) and gg not in genes,
                      'unknown gene replaced by a placeholder')
    ctx.check(len(set(got_genes)) == ng and list(var2['w'].values)
              == list(range(ng)), 'same genes in the same order, unique')
    it = AnnDataRowIterator(str(out_path), row_chunk_size=10,
                            tmp_dir=os.path.join(root, 'scratch'))
    got = np.vstack([chunk[0] for chunk in it])
    del it
    want = np.round(X) if round_to_int else X
    if round_to_int and nonint:
        ctx.check(np.issubdtype(got.dtype, np.integer),
                  'rounded data held in an integer type')
        ctx.check(bool((np.abs(got.astype(float) - X) <= 0.5).all()),
                  'every value moved by at most one half')
        ctx.check(bool((got.astype(float) == np.round(got)).all()),
                  'every value is an integer')
    else:
        ctx.check(bool((got.astype(float) == want).all()),
                  'X == requested layer, unchanged')
    uns = read_uns_from_h5ad(out_path)
    ctx.check(int(uns.get('AIBS_CDM_n_mapped_genes', -1))
              == ng - sum(unknown), 'number of mapped genes recorded')
    if needs_map:
        mp = dict(uns.get('AIBS_CDM_gene_mapping', {}))
        ctx.check(all(mp.get(g) == gg for g, gg in zip(genes, got_genes)
                      if g != gg) and all(k in genes for k in mp),
                  'applied renaming recorded in the file')
    return 'ok'


HARNESSES = [
    Harness('rounding_and_integer_type', h_round, setup=setup_round,
            cases=[{'shape': [1, 2], 'enc': 'dense'},
                   {'shape': [2, 1], 'enc': 'dense', 'chunks': [1, 1]},
                   {'shape': [2, 2], 'enc': 'dense', 'chunks': [2, 1],
                    'range': [250, 260]},
                   {'shape': [2, 2], 'enc': 'dense', 'chunks': [1, 2],
                    'range': [-2, 2]},
                   {'shape': [1, 2], 'enc': 'csr'},
                   {'shape': [2, 2], 'enc': 'csr', 'chunks': [1],
                    'range': [250, 260]},
                   {'shape': [1, 2], 'enc': 'dense', 'range': [250, 260]},
                   {'shape': [1, 2], 'enc': 'dense', 'range': [-2, 2]}],
            thorough_cases=[{'shape': [1, 3], 'enc': 'dense'},
                            {'shape': [2, 2], 'enc': 'dense',
                             'chunks': [1, 2]},
                            {'shape': [2, 2], 'enc': 'csr'},
                            {'shape': [2, 2], 'enc': 'csc'},
                            {'shape': [1, 2], 'enc': 'dense',
                             'range': [65530, 65540]},
                            {'shape': [1, 2], 'enc': 'dense',
                             'range': [-130, -125]}],
            funcs=['validation.utils.round_x_to_integers',
                   '_round_dense_x_to_integers',
                   '_round_sparse_x_to_integers', 'is_x_integers',
                   '_is_dense_x_integers', '_is_sparse_x_integers',
                   'get_minmax_x_from_h5ad', 'utils.choose_int_dtype'],
            stubs=['h5py -> model (stores into an integer dataset carry '
                   'the obligation "fits the declared type")'],
            bounds='2-4 stored values, symbolic reals in [-200,70000] and '
                   'in narrow windows around 255, 65535, -128 and 0 (the '
                   'half-way boundaries); dense (contiguous / chunked), '
                   'CSR, CSC',
            outside='float rounding of np.round vs real half-to-even (z3 '
                    'FP lemmas of the design are not re-proved here); '
                    'magnitudes beyond 2^53',
            expect_reach=['rounded'], selftest=10, split=48),
    Harness('gene_identifier_mapping', h_identifiers,
            cases=[{'n': 1}, {'n': 2}, {'n': 3}],
            thorough_cases=[{'n': 3}, {'n': 4}],
            funcs=['GeneIdMapper.map_gene_identifiers', '_post_process',
                   'RandomNameGenerator.name', 'gene_id.utils.is_ensembl'],
            bounds='1-3 (4) gene names, each any of 12 kinds: Ensembl id, '
                   'id with version, id of another species, known symbols '
                   '(two mapping to one id, one mapping to a present id), '
                   'unknown names, near-misses of the pattern',
            expect_reach=['mapped', 'all unmappable'], split=16),
    Harness('ensembl_pattern_lemmas', h_regex, cases=[{}],
            funcs=['gene_id.utils.is_ensembl (pattern read from the live '
                   'function)', 'GeneIdMapper._post_process'],
            stubs=['the regular expression is translated to a z3 regex'],
            bounds='strings up to length 12 for the version-strip lemma; '
                   'unbounded for the placeholder lemma',
            expect_reach=['decided']),
    Harness('validate_h5ad_real_files', h_validate_stage, setup=setup_stage,
            cases=[{'genes': 2, 'kinds': [0, 1, 2, 3, 5, 7, 8],
                    'storage': [['dense', 'X'], ['csr', 'X'],
                                ['csc', 'raw']]}],
            thorough_cases=[{'genes': 2}, {'genes': 3,
                                           'kinds': [0, 2, 3, 5, 7]}],
            funcs=['validate_h5ad.validate_h5ad', '_validate_h5ad',
                   '_check_input_gene_names',
                   'validation.utils.map_gene_ids_in_var',
                   'round_x_to_integers', 'anndata_utils.copy_layer_to_x',
                   'update_uns', 'h5_utils.copy_h5_excluding_data'],
            stubs=[],
            bounds='real h5ad files written by anndata: 3 cells x 2 (3) '
                   'genes; every mix of 9 gene-name kinds; duplicate cell '
                   'id or not; values: integers / halves / type '
                   'boundaries 255.5 and 65535.5 / negatives; dense, CSR, '
                   'CSC; X or a named layer; rounding on or off',
            outside='obs/var/uns preservation beyond the fields checked',
            expect_reach=['new file', 'no change', 'rejected input'],
            split=32),
]
