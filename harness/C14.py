"""C14 — a failed worker fails the run; no partial result passes as
success.  Real functions: multiprocessing_utils.winnow_process_list /
winnow_process_dict; the mapping dispatch (see harness/dispatch.py) under
the fault model of symx/mpmodel.py."""
from symx import core, mpmodel
from symx.core import And, Or, Not
from harness.common import Harness
from harness import dispatch as DP

import cell_type_mapper.utils.multiprocessing_utils as mpu


class P:
    def __init__(self, code):
        self.exitcode = code


def h_winnow(ctx, case):
    n = case['n']
    codes = []
    for i in range(n):
        if ctx.flag(f"finished[{i}]"):
            codes.append(ctx.int(f"code[{i}]", -2, 2))
        else:
            codes.append(None)
    procs = [P(c) for c in codes]
    bad = Or(*[c != 0 for c in codes if c is not None]) \
        if any(c is not None for c in codes) else False
    use_dict = case.get('dict', False)
    try:
        if use_dict:
            out = mpu.winnow_process_dict({f"k{i}": p
                                           for i, p in enumerate(procs)})
            left = list(out.values())
        else:
            left = mpu.winnow_process_list(list(procs))
        raised = False
    except RuntimeError:
        raised = True
    ctx.reach('raised' if raised else 'returned')
    if raised:
        ctx.check(bad, 'raises only if some finished worker has a '
                  'non-zero exit code')
    else:
        ctx.check(Not(bad), 'never returns normally when a finished '
                  'worker has a non-zero exit code')
        ctx.check([id(p) for p in left] ==
                  [id(p) for p, c in zip(procs, codes) if c is None],
                  'returns exactly the unfinished workers, in order')
    return 'raised' if raised else 'returned'


def h_mapping_faults(ctx, case):
    res = DP.run_dispatch(ctx, case, faults=True)
    outcome = res['outcome']
    abnormal = [i for i, m in outcome.items() if m != 'ok']
    ctx.note('outcome', dict(outcome))
    if res['raised'] is not None:
        ctx.reach('raised')
        ctx.check(len(abnormal) > 0, 'the call raises only if a worker '
                  'terminated abnormally')
        return 'raised'
    ctx.reach('returned')
    ctx.check(len(abnormal) == 0, 'a worker terminated abnormally '
              f'({[outcome[i] for i in abnormal]}) but the call returned '
              'normally')
    if not abnormal:
        DP.check_dispatch(ctx, res, case)
    return 'returned'


def h_stats_faults(ctx, case):
    from harness.common import Env
    from harness import refstats as RS
    env = Env(ctx)
    inp = RS.build_inputs(ctx, case, env)
    res = RS.run_stage(ctx, case, env, inp, faults=True)
    abnormal = [i for i, m in res['outcome'].items() if m != 'ok']
    ctx.note('outcome', dict(res['outcome']))
    if res['raised'] is not None:
        ctx.reach('raised')
        ctx.check(len(abnormal) > 0, 'the call raises only if a worker '
                  'terminated abnormally')
        ctx.check(not RS.accepted_as_complete(env, res['out']),
                  'after a failed worker no file at the output location '
                  'would be accepted as complete by a later stage')
        return 'raised'
    ctx.reach('returned')
    ctx.check(len(abnormal) == 0, 'a worker terminated abnormally '
              f'({[res["outcome"][i] for i in abnormal]}) but the call '
              'returned normally')
    if not abnormal:
        RS.check_stats(ctx, inp, res, env)
    return 'returned'


def h_run_mapping_faults(ctx, case):
    """the whole mapping run (real files): an abnormal worker => the
    run raises, no result records, no CSV, no success message, the log is
    still written; otherwise the run succeeds with all outputs"""
    from harness import stage as ST
    from harness import stagechecks as SC
    inp = SC.inputs(case)
    work = ST.new_work()
    nproc = 1 + ctx.choice('n_processors-1', 3)
    cfg = ST.make_config(inp, work, n_processors=nproc, chunk_size=2,
                         bootstrap_iteration=3)
    res = ST.run(cfg, K=case.get('K', 1), faults=True,
                 fault_steps=case.get('fault_steps', 2))
    abnormal = [m for m in res['outcome'].values() if m != 'ok']
    ctx.note('outcome', dict(res['outcome']))
    if abnormal:
        ctx.reach('worker failed')
        SC.check_failed_run(ctx, cfg, res)
    else:
        ctx.reach('all workers ok')
        ctx.check(res['raised'] is None, 'no worker failed => the run '
                  'succeeds: ' + str(res['raised'])[:80])
        if res['raised'] is None:
            SC.check_outputs_agree(ctx, cfg, res, inp.tree)
            ctx.check(any('RAN SUCCESSFULLY' in ln
                          for ln in res['json']['log']),
                      'success message recorded')
    ST.drop_work(work)
    return 'failed' if abnormal else 'ok'


def _sc_setup(case, mode):
    from harness import stagechecks as SC
    SC.setup(case, mode)


def _rm_setup(case, mode):
    from harness import refmarkers as RM
    RM.setup(case, mode)


def _ss_setup(case, mode):
    from harness import selstage as SS
    SS.setup(case, mode)


def h_selection_faults(ctx, case):
    """query marker selection: an abnormal worker => select_all_markers
    raises (no partial marker table is returned)"""
    from harness import selstage as SS
    res = SS.run_selection(ctx, case, faults=True)
    abnormal = [m for m in res['outcome'].values() if m != 'ok']
    ctx.note('outcome', dict(res['outcome']))
    if abnormal:
        ctx.reach('worker failed')
        ctx.check(res['raised'] is not None,
                  f'a worker terminated abnormally ({abnormal}) but a '
                  'marker table was returned')
    else:
        ctx.reach('all workers ok')
        ctx.check(res['raised'] is None, 'no worker failed => success: '
                  + str(res['raised'])[:80])
        if res['raised'] is None:
            SS.check_selection(ctx, res)
    return 'failed' if abnormal else 'ok'


def _par_setup(case, mode):
    from harness import C13
    C13.setup_par(case, mode)


def h_transposition_faults(ctx, case):
    """parallel transposition: an abnormal worker => the call raises and
    the scratch directory is left empty"""
    import os
    import numpy as np
    from symx import mpmodel
    from harness import C13
    from harness.common import Env, dense_from_bits, to_csc
    import cell_type_mapper.utils.csc_to_csr_parallel as PAR
    nr, nc = case['shape']
    env = Env(ctx)
    dense = dense_from_bits(ctx, 'x', nr, nc)
    indptr, indices, data = to_csc(dense)
    nproc = ctx.int('n_processors', 1, case.get('max_proc', 3))
    mpmodel.SCHED.reset(K=case.get('K', 0), faults=True,
                        fault_modes=case.get('fault_modes'),
                        fault_steps=case.get('fault_steps', 1))
    src = env.path('src.h5')
    with env.File(src, 'w') as f:
        env.write_sparse(f, indptr, indices, data, dtype=np.float64)
    out = env.path('out.h5')
    raised = None
    try:
        PAR.transpose_sparse_matrix_on_disk_v2(
            h5_path=src, indices_tag='indices', indptr_tag='indptr',
            data_tag='data', indices_max=nr, max_gb=1, output_path=out,
            tmp_dir=env.dir, n_processors=nproc)
    except Exception as e:
        raised = e
    abnormal = [m for m in mpmodel.SCHED.outcome.values() if m != 'ok']
    if abnormal:
        ctx.reach('worker failed')
        ctx.check(raised is not None, f'a worker terminated abnormally '
                  f'({abnormal}) but the call returned normally')
    else:
        ctx.reach('all workers ok')
        ctx.check(raised is None, 'no worker failed => success: '
                  + str(raised)[:80])
    left = [n for n in os.listdir(env.dir) if n not in ('src.h5', 'out.h5')]
    ctx.check(left == [], f'scratch directory empty afterwards: {left[:3]}')
    return 'failed' if abnormal else 'ok'


def h_marker_stage_faults(ctx, case):
    """reference markers: an abnormal worker => the call raises and no
    file appears at the requested output location (the table is
    assembled in scratch space and moved into place last)"""
    import os
    from harness import refmarkers as RM
    res = RM.run_stage(ctx, case, faults=True)
    abnormal = [m for m in res['outcome'].values() if m != 'ok']
    ctx.note('outcome', dict(res['outcome']))
    if abnormal:
        ctx.reach('worker failed')
        ctx.check(res['raised'] is not None,
                  f'a worker terminated abnormally ({abnormal}) but the '
                  'call returned normally')
        ctx.check(not os.path.exists(res['out']),
                  'no file at the requested output location after a '
                  'failed worker')
        if res.get('mask_stage_failed') and os.path.exists(res['mask']):
            # the failure happened while the mask was being written
            import h5py
            try:
                with h5py.File(res['mask'], 'r') as f:
                    complete = all(k in f for k in ('indptr', 'indices',
                                                    'data'))
            except Exception:
                complete = False
            ctx.check(not complete, 'no complete-looking p-value mask at '
                      'the requested location after a failed mask worker')
    else:
        ctx.reach('all workers ok')
        ctx.check(res['raised'] is None, 'no worker failed => success: '
                  + str(res['raised'])[:80])
        if res['raised'] is None:
            RM.check_tables(ctx, res)
    return 'failed' if abnormal else 'ok'


def h_marker_cli_reruns(ctx, case):
    """the reference-marker command line runner, re-run into an output
    directory that holds the product of an earlier run: when a worker of
    the new run fails, the run raises and the old product is not left
    there to pass for the new one"""
    import os
    from harness import refmarkers as RM
    res = RM.run_cli(ctx, case)
    abnormal = [m for m in res['outcome'].values() if m != 'ok']
    ctx.note('outcome', dict(res['outcome']))
    ctx.note('left at output', res['prior'])
    if res['prior'] != 'nothing' and not res['clobber']:
        ctx.reach('refused')
        ctx.check(isinstance(res['raised'], RuntimeError) and not abnormal,
                  'an existing output without clobber is refused before '
                  'any worker starts')
        return 'refused'
    if abnormal:
        ctx.reach('worker failed')
        ctx.check(res['raised'] is not None,
                  f'a worker terminated abnormally ({abnormal}) but the '
                  'run returned normally')
        ctx.check(not RM.marker_file_complete(res['out']),
                  'after a failed worker no file at the requested output '
                  'location would be accepted as complete by a later '
                  f"stage (left there before the run: {res['prior']})")
        return 'failed'
    ctx.reach('all workers ok')
    ctx.check(res['raised'] is None, 'no worker failed => success: '
              + str(res['raised'])[:80])
    if res['raised'] is None:
        RM.check_tables(ctx, res)
        ctx.check(RM.marker_file_complete(res['out']),
                  'the product carries its metadata record')
    return 'ok'


def _rs_setup(case, mode):
    from harness import refstats as RS
    RS.setup(case, mode)


HARNESSES = [
    Harness('winnow', h_winnow,
            cases=[{'n': n, 'dict': d} for n in (1, 2, 3, 4)
                   for d in (False, True)],
            funcs=['multiprocessing_utils.winnow_process_list',
                   'winnow_process_dict'],
            bounds='1-4 workers, each unfinished or finished with a '
                   'symbolic exit code in [-2,2] (the message formats the code, which realises it)',
            expect_reach=['raised', 'returned'], selftest=30),
    Harness('mapping_worker_faults', h_mapping_faults, setup=DP.setup,
            cases=[{'rows': 1, 'K': 1}, {'rows': 2, 'K': 1},
                   {'rows': 3, 'K': 1, 'max_proc': 2},
                   {'rows': 2, 'K': 1, 'buffer': True},
                   {'rows': 3, 'K': 1, 'buffer': True, 'max_proc': 2}],
            thorough_cases=[{'rows': n, 'K': k, 'buffer': b, 'max_proc': 3}
                            for n in (1, 2, 3) for k in (1, 2)
                            for b in (False, True)]
            + [{'rows': 4, 'K': 1, 'max_proc': 2}],
            funcs=['election_runner.run_type_assignment_on_h5ad',
                   'election.run_type_assignment_on_h5ad_cpu',
                   '_run_type_assignment_on_h5ad_worker',
                   'multiprocessing_utils.winnow_process_list'],
            stubs=['multiprocessing -> symbolic scheduler + fault model: '
                   'one worker (any) fails in one of the modes before / '
                   'killed / after / raise_at(step) (steps: start of the '
                   'vote, writing the result)']
            + ['see dispatch_order_identity of C01 for the rest'],
            bounds='1-3 (4) rows, chunk size and worker count symbolic, '
                   'shared-list and per-chunk-file gather, every '
                   'completion order within K, every (worker, failure '
                   'mode, crash point)',
            outside='a worker that exits 0 without doing its work; '
                    'deadlock of a real Manager lock; OS-level kill timing',
            expect_reach=['raised', 'returned'], selftest=6, split=48),
    Harness('run_mapping_worker_faults', h_run_mapping_faults,
            setup=_sc_setup, cases=[{}], thorough_cases=[{'K': 2}],
            funcs=['from_specified_markers.run_mapping', '_run_mapping',
                   'election_runner.run_type_assignment_on_h5ad',
                   'election.run_type_assignment_on_h5ad_cpu',
                   '_run_type_assignment_on_h5ad_worker',
                   'output_utils.blob_to_hdf5', 'blob_to_csv',
                   'cli_log.CommandLog.write_log'],
            stubs=['multiprocessing -> scheduler + fault model (real '
                   'worker bodies run inline on real files)'],
            bounds='5 query cells in 3 chunks, 1-3 workers, one abnormal '
                   'worker (any worker, modes before/killed/after/raise), '
                   'every completion order within K',
            expect_reach=['worker failed', 'all workers ok'], split=16),
    Harness('reference_marker_worker_faults', h_marker_stage_faults,
            setup=_rm_setup,
            cases=[{'vary': [], 'K': 0, 'fixed': True},
                   {'vary': [], 'K': 0, 'fixed': True, 'route': 'mask'},
                   {'vary': [], 'K': 0, 'fixed': True, 'fault_steps': 4,
                    'fault_modes': ['ok', 'raise_at', 'killed_at']},
                   {'vary': [], 'K': 0, 'fixed': True, 'route': 'mask',
                    'fault_steps': 4,
                    'fault_modes': ['ok', 'raise_at', 'killed_at']}],
            thorough_cases=[{'vary': ['c0'], 'K': 1, 'fixed': True},
                            {'vary': ['c0'], 'K': 1, 'fixed': True,
                             'route': 'mask'}],
            funcs=['markers.find_markers_for_all_taxonomy_pairs',
                   'create_sparse_by_pair_marker_file',
                   '_find_markers_worker', '_merge_sparse_by_pair_files',
                   'add_sparse_by_gene_markers_to_file',
                   'csc_to_csr_parallel.transpose_sparse_matrix_on_disk_v2',
                   'multiprocessing_utils.winnow_process_dict / _list'],
            stubs=['multiprocessing -> scheduler + fault model in the '
                   'marker workers and in the parallel transposition'],
            bounds='real files (5 clusters, 10 pairs => two marker '
                   'workers; 1-3 transposition workers); one abnormal '
                   'worker of either pool, every failure mode',
            expect_reach=['worker failed', 'all workers ok'], split=32),
    Harness('reference_marker_cli_reruns', h_marker_cli_reruns,
            setup=_rm_setup, cases=[{'K': 0}],
            thorough_cases=[{'K': 1, 'fault_steps': 4,
                             'fault_modes': ['ok', 'before', 'killed',
                                             'after', 'raise_at',
                                             'killed_at']}],
            funcs=['cli.reference_markers.ReferenceMarkerRunner.run',
                   'create_input_to_output_map',
                   'markers.find_markers_for_all_taxonomy_pairs'],
            stubs=['argschema parsing -> fully specified argument dict '
                   '(ReferenceMarkerRunner.__new__)',
                   'multiprocessing -> scheduler + fault model'],
            bounds='output directory holding nothing / the complete '
                   'product of an earlier run on other statistics / a '
                   'truncated file; clobber on or off; 1-3 workers; one '
                   'abnormal worker of either pool in any mode',
            expect_reach=['refused', 'worker failed', 'all workers ok'],
            split=32),
    Harness('selection_worker_faults', h_selection_faults, setup=_ss_setup,
            cases=[{'vary_genes': ['g0'], 'target': 1}],
            thorough_cases=[{'vary_genes': ['g0', 'g5'], 'K': 1}],
            funcs=['selection_pipeline.select_all_markers',
                   '_marker_selection_worker',
                   'multiprocessing_utils.winnow_process_dict'],
            stubs=['multiprocessing -> scheduler + fault model'],
            bounds='reference-marker file of the real marker stage; 1-3 '
                   'workers; every large-parent threshold; one abnormal '
                   'worker in any mode',
            expect_reach=['worker failed', 'all workers ok'], split=32),
    Harness('transposition_worker_faults', h_transposition_faults,
            setup=_par_setup,
            cases=[{'shape': [2, 2]},
                   {'shape': [2, 2], 'fault_steps': 4, 'max_proc': 2,
                    'fault_modes': ['ok', 'raise_at', 'killed_at']}],
            thorough_cases=[{'shape': [3, 2], 'K': 1}],
            funcs=['csc_to_csr_parallel.transpose_sparse_matrix_on_disk_v2',
                   '_transpose_subset_of_indices',
                   'multiprocessing_utils.winnow_process_list'],
            stubs=['h5py -> model; multiprocessing -> scheduler + fault '
                   'model'],
            bounds='every 2x2 pattern, 1-3 workers, one abnormal worker in '
                   'any mode',
            expect_reach=['worker failed', 'all workers ok'], split=32),
    Harness('statistics_worker_faults', h_stats_faults, setup=_rs_setup,
            cases=[{'cells': 2, 'genes': 1, 'clusters': 1, 'via_tree': True,
                    'max_proc': 3},
                   {'files': 2, 'cells': 1, 'genes': 1, 'clusters': 1,
                    'via_tree': True, 'max_proc': 2},
                   {'cells': 2, 'genes': 1, 'clusters': 1, 'max_proc': 2,
                    'K': 0, 'fault_modes': ['ok', 'raise_at', 'killed_at'],
                    'fault_steps': 5}],
            thorough_cases=[{'cells': 3, 'genes': 1, 'clusters': 2,
                             'via_tree': True, 'max_proc': 3, 'K': 2},
                            {'cells': 3, 'genes': 1, 'clusters': 2,
                             'max_proc': 3, 'K': 1, 'fault_steps': 6,
                             'fault_modes': ['ok', 'raise_at',
                                             'killed_at']},
                            {'files': 2, 'cells': 2, 'genes': 1,
                             'clusters': 1, 'via_tree': True,
                             'max_proc': 3}],
            funcs=['precompute_from_anndata.precompute_summary_stats_from_'
                   'h5ad_list_and_tree',
                   'precompute_summary_stats_from_h5ad_and_lookup',
                   '_precompute_summary_stats_from_h5ad_and_lookup',
                   '_process_chunk_spec',
                   'multiprocessing_utils.winnow_process_list'],
            stubs=['multiprocessing -> scheduler + fault model; h5py -> '
                   'model; read_df_from_h5ad -> names'],
            bounds='1-2 files, 2-3 cells, 1-3 workers, one abnormal worker '
                   'termination (any worker, any mode), every completion '
                   'order within K',
            outside='a stale complete file already present at the output '
                    'path before the run',
            expect_reach=['raised', 'returned'], selftest=4, split=32),
]
