"""C01 — every query cell gets one complete, ordered, tree-consistent
assignment.  Real functions: election.run_type_assignment (+ level loop),
election.run_type_assignment_on_h5ad_cpu, _run_type_assignment_on_h5ad_
worker, election_runner.run_type_assignment_on_h5ad, output_utils.
re_order_blob, TaxonomyTree.backfill_assignments/flatten/drop_level,
AnnDataRowIterator, winnow_process_list."""
from symx import core
from harness.common import Harness
from harness import levelloop as LL
from harness import dispatch as DP
from harness import C03

import cell_type_mapper.utils.output_utils as ou


def h_paths(ctx, case):
    return C03.h_levels(ctx, case, confidence=False)


def h_dispatch(ctx, case):
    res = DP.run_dispatch(ctx, case, faults=False)
    if res['raised'] is not None:
        ctx.exception(res['raised'])
        return 'EXC'
    ctx.reach('mapped')
    DP.check_dispatch(ctx, res, case)
    return f"chunks={len(res['procs'])}"


def h_reorder(ctx, case):
    """re_order_blob: any arrival order of the records is put back into
    query order"""
    n = case['rows']
    names = [f"c{(3 * i + 1) % 5}_{i}" for i in range(n)]
    perm = ctx.perm('arrival', n)
    blob = [{'cell_id': names[i], 'k': i} for i in perm]
    from harness.common import patch
    patch(ou, 'read_df_from_h5ad',
          lambda h5ad_path, df_name: DP.FakeDF(list(names)))
    out = ou.re_order_blob(blob, 'q.h5ad')
    ctx.reach('reordered')
    ctx.check([r['cell_id'] for r in out] == names and
              [r['k'] for r in out] == list(range(n)),
              're_order_blob restores query order')
    return 'ok'


def _valid_taxonomies():
    """the whole run on a taxonomy with an inner node that has no
    children (accepted by the validator): mapped without error, outputs
    as for any other taxonomy (harness body of C15)"""
    from harness import C15
    from harness import stagechecks as SC
    return Harness('run_mapping_childless_inner_node', C15.h_outputs,
                   setup=SC.setup, cases=[{'names': True, 'childless': True},
                                          {'names': False, 'childless': 130}],
                   funcs=['from_specified_markers.run_mapping',
                          'score_utils.read_precomputed_stats',
                          'matching.get_leaf_means',
                          'marker_cache_v2.create_marker_cache_from_'
                          'specified_markers'],
                   stubs=['multiprocessing -> scheduler model'],
                   bounds='three-level taxonomy with a class that has no '
                          'subclass; flatten / drop of each level / none; '
                          '1 or 7 iterations; 0-2 runners-up; 1-2 workers',
                   expect_reach=['mapped'])


HARNESSES = [
    _valid_taxonomies(),
    Harness('level_loop_paths', h_paths, setup=LL.setup, cases=C03.QUICK,
            thorough_cases=C03.THOROUGH, funcs=C03.FUNCS, stubs=C03.STUBS,
            assumptions=C03.ASSUME, classify=C03.classify,
            bounds='every child->parent map for trees with <=3 (thorough '
                   '4) levels and the listed node counts (<=4 leaves), '
                   'single-child chains, single-node levels, childless '
                   'inner nodes; arbitrary vote tallies; 1-2 cells',
            outside='argschema CLI; GPU path',
            expect_reach=['mapped'], selftest=10, split=48),
    Harness('backfill_after_reduction', C03.h_backfill, setup=LL.setup,
            cases=[{'sizes': s} for s in ([2, 3], [1, 2, 3], [2, 2, 2])]
            + [{'sizes': [2, 2, 2], 'alias': True}],
            thorough_cases=[{'sizes': s} for s in
                            ([2, 3], [2, 2, 3], [1, 2, 3], [2, 3, 3],
                             [2, 3, 4], [2, 2, 2, 3])]
            + [{'sizes': [2, 2, 3], 'alias': True}],
            funcs=C03.FUNCS + ['TaxonomyTree.flatten', 'drop_level',
                               'backfill_assignments'],
            stubs=C03.STUBS, assumptions=C03.ASSUME, classify=C03.classify,
            bounds='trees as above; flatten or drop of each non-leaf level',
            expect_reach=['backfilled'], selftest=10, split=48),
    Harness('dispatch_order_identity', h_dispatch, setup=DP.setup,
            cases=[{'rows': 1}, {'rows': 2}, {'rows': 3, 'K': 1},
                   {'rows': 4, 'K': 1, 'max_proc': 2},
                   {'rows': 3, 'K': 1, 'enc': 'csr'},
                   {'rows': 3, 'K': 1, 'buffer': True},
                   {'rows': 2, 'K': 1, 'enc': 'csc', 'max_proc': 2},
                   # per-chunk files are named <r0>_<r1>_...: offsets with
                   # different digit counts sort differently as strings
                   {'rows': 11, 'K': 1, 'buffer': True, 'max_proc': 2,
                    'chunk_choices': [5, 10]},
                   {'rows': 11, 'K': 1, 'max_proc': 2,
                    'chunk_choices': [5]}],
            thorough_cases=[{'rows': n, 'K': 2, 'enc': e, 'buffer': b}
                            for n in (1, 2, 3, 4) for e in ('dense', 'csr')
                            for b in (False, True)]
            + [{'rows': 5, 'K': 1, 'max_proc': 3},
               {'rows': 11, 'K': 1, 'buffer': True, 'max_proc': 3,
                'chunk_choices': [3, 5, 10]},
               {'rows': 101, 'K': 1, 'buffer': True, 'max_proc': 1,
                'chunk_choices': [50]},
               {'rows': 3, 'K': 2, 'enc': 'csc'}],
            funcs=['election_runner.run_type_assignment_on_h5ad',
                   'election.run_type_assignment_on_h5ad_cpu',
                   '_run_type_assignment_on_h5ad_worker',
                   'output_utils.re_order_blob',
                   'multiprocessing_utils.winnow_process_list',
                   'AnnDataRowIterator', 'CellByGeneMatrix.__init__/'
                   'downsample_genes_in_place'],
            stubs=['multiprocessing -> symbolic scheduler (every completion '
                   'order)', 'election.run_type_assignment -> deterministic '
                   'function of the chunk rows and the chunk generator',
                   'read_df_from_h5ad -> obs names', 'h5py -> model',
                   'reconcile_taxonomy_and_markers/get_leaf_means -> no-op '
                   '(checked in C08/C18)', 'json of the per-chunk buffer '
                   'files -> in-memory objects + real placeholder files'],
            bounds='1-4 (5) rows with a unique symbolic tag each; '
                   'chunk_size symbolic in [1, rows+1]; n_processors '
                   'symbolic in [1,3]; shared-list and per-chunk-file '
                   'gather; dense/CSR/CSC query; every completion order '
                   'reachable with <= K "not yet" answers per worker',
            outside='real OS processes / Manager proxies',
            expect_reach=['mapped'], selftest=6, split=48),
    Harness('re_order_blob', h_reorder, cases=[{'rows': 4}],
            thorough_cases=[{'rows': 5}],
            funcs=['output_utils.re_order_blob'],
            bounds='every arrival order of 4 (5) records',
            expect_reach=['reordered']),
]
