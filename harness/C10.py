"""C10 — the taxonomy stays a strict tree under construction and
transformation.  Real functions: taxonomy/utils.validate_taxonomy_tree,
get_taxonomy_tree, get_child_to_parent, convert_tree_to_leaves,
_get_leaves_from_tree, get_all_leaf_pairs; TaxonomyTree (flatten,
_drop_level, to_str/from_str, parents, children, as_leaves,
leaves_to_compare, all_parents).  The code is pure Python over concrete
structures: the solver enumerates the structures (every child->parent map,
every single edit), so this is bounded exhaustive exploration decided per
path by plain evaluation of the obligations."""
import copy
import itertools
import json

from symx import core
from harness.common import (Harness, level_names, tree_data,
                            symbolic_parents)

from cell_type_mapper.taxonomy.taxonomy_tree import TaxonomyTree
import cell_type_mapper.taxonomy.utils as TU

EDITS = ['none', 'delete_child_entry', 'second_parent', 'duplicate_child',
         'dangling_child', 'non_str_node', 'duplicate_cell',
         'missing_level_key', 'extra_level_key', 'orphan_node']


def strict_tree(data):
    """the harness's own predicate, written from the statement"""
    if 'hierarchy' not in data:
        return False
    h = data['hierarchy']
    keys = set(data) - {'metadata', 'name_mapper', 'hierarchy_mapper'}
    if keys != set(h) | {'hierarchy'}:
        return False
    for lv in h:
        if any(not isinstance(n, str) for n in data[lv]):
            return False
    for pl, cl in zip(h[:-1], h[1:]):
        parent_of = {}
        for p, kids in data[pl].items():
            kids = list(kids)
            if len(kids) != len(set(kids)):
                return False            # a child listed twice
            for k in kids:
                if k not in data[cl]:
                    return False        # listed child does not exist
                if k in parent_of:
                    return False        # two parents
                parent_of[k] = p
        if set(parent_of) != set(data[cl]):
            return False                # a node without parent
    cells = [c for leaf in data[h[-1]].values() for c in leaf]
    return len(cells) == len(set(cells))


def apply_edit(ctx, data, levels, names, parents, kind):
    d = copy.deepcopy(data)
    nl = len(levels)
    if kind == 'none':
        return d
    if kind in ('delete_child_entry', 'second_parent', 'duplicate_child',
                'dangling_child'):
        if nl < 2:
            raise core.PathAbort('edit needs two levels')
        li = 1 + ctx.choice('edit_level', nl - 1)
        ci = ctx.choice('edit_child', len(names[li]))
        child = names[li][ci]
        par = names[li - 1][parents[li][ci]]
        if kind == 'delete_child_entry':
            d[levels[li - 1]][par].remove(child)
        elif kind == 'duplicate_child':
            d[levels[li - 1]][par].append(child)
        elif kind == 'second_parent':
            others = [n for n in names[li - 1] if n != par]
            if not others:
                raise core.PathAbort('no second parent available')
            d[levels[li - 1]][others[ctx.choice('edit_other',
                                                len(others))]].append(child)
        else:
            d[levels[li - 1]][par].append('ghost')
        return d
    if kind == 'non_str_node':
        li = ctx.choice('edit_level', nl)
        ci = ctx.choice('edit_child', len(names[li]))
        v = d[levels[li]].pop(names[li][ci])
        d[levels[li]][7] = v
        return d
    if kind == 'duplicate_cell':
        leaves = names[-1]
        a = ctx.choice('edit_leaf', len(leaves))
        src = [x for x in leaves if d[levels[-1]][x]]
        if not src:
            raise core.PathAbort('no cell to duplicate')
        b = src[ctx.choice('edit_leaf_from', len(src))]
        d[levels[-1]][leaves[a]].append(d[levels[-1]][b][0])
        return d
    if kind == 'missing_level_key':
        d.pop(levels[ctx.choice('edit_level', nl)])
        return d
    if kind == 'extra_level_key':
        d['bogus'] = {}
        return d
    if kind == 'orphan_node':
        if nl < 2:
            raise core.PathAbort('edit needs two levels')
        li = 1 + ctx.choice('edit_level', nl - 1)
        # the orphan has a name of its own, or the name of a node that is
        # properly listed as a child on a level above it
        name = 'orphan'
        if li >= 2 and ctx.flag('orphan_named_like_a_higher_node'):
            name = names[li - 1][0]
            if name in d[levels[li]]:
                raise core.PathAbort('name already used on that level')
        d[levels[li]][name] = [] if li < nl - 1 else ['cellX']
        return d
    raise ValueError(kind)


def classify(f, case):
    if f['witness'].get('edit') == EDITS.index('duplicate_child'):
        return 'F4:child-listed-twice-under-one-parent-is-accepted'
    return None


def _alias(ctx, case, sizes, names):
    """labels are only unique within a level: optionally let one node
    carry the label of a node of some coarser level"""
    if case.get('alias') and len(sizes) > 1:
        li = 1 + ctx.choice('alias_level', len(sizes) - 1)
        ci = ctx.choice('alias_node', sizes[li])
        lj = ctx.choice('alias_from_level', li)
        pj = ctx.choice('alias_of', sizes[lj])
        names[li][ci] = names[lj][pj]


def _thin_cells(ctx, case, data, levels, names):
    """optionally empty the cell list of some leaves"""
    if case.get('empty_leaves'):
        for n in names[-1]:
            if ctx.flag(f"no_cells[{n}]"):
                data[levels[-1]][n] = []


def h_validate(ctx, case):
    """accepted <=> strict tree, over every child->parent map and every
    single edit of it"""
    sizes = case['sizes']
    levels, names = level_names(sizes)
    parents = symbolic_parents(ctx, sizes)
    _alias(ctx, case, sizes, names)
    data = tree_data(levels, names, parents, cells_per_leaf=2)
    _thin_cells(ctx, case, data, levels, names)
    kind = EDITS[ctx.choice('edit', len(EDITS))]
    d = apply_edit(ctx, data, levels, names, parents, kind)
    want = strict_tree(d)
    try:
        TaxonomyTree(data=copy.deepcopy(d))
        got = True
    except RuntimeError:
        got = False
    except Exception as e:
        ctx.exception(e)
        return 'EXC ' + type(e).__name__
    ctx.reach('accepted' if got else 'rejected')
    ctx.check(got == want, 'accepted exactly when the input is a strict '
              f'tree (edit={kind}, strict={want})')
    return f"{kind}:{'accepted' if got else 'rejected'}"


class Oracle:
    """independent tree oracle.  Works on node *indices* internally, so
    that labels repeated on different levels cannot confuse it."""

    def __init__(self, levels, names, parents):
        self.levels, self.names, self.parents = levels, names, parents

    def _pidx(self, li, i):
        return self.parents[li][i]

    def parent(self, li, n):
        return self.names[li - 1][self._pidx(li, self.names[li].index(n))]

    def ancestor(self, li, n, lj):
        i = self.names[li].index(n)
        while li > lj:
            i = self._pidx(li, i)
            li -= 1
        return self.names[li][i]

    def kids(self, li, n):
        i = self.names[li].index(n)
        return [self.names[li + 1][k]
                for k, p in enumerate(self.parents[li + 1]) if p == i]

    def leaves(self, li, n):
        last = len(self.levels) - 1
        return sorted(x for x in self.names[last]
                      if self.ancestor(last, x, li) == n)


def h_transform(ctx, case):
    """flatten / drop / round-trip / partition / inverse / leaf pairs on
    every valid tree"""
    sizes = case['sizes']
    levels, names = level_names(sizes)
    parents = symbolic_parents(ctx, sizes, onto=case.get('onto', False))
    _alias(ctx, case, sizes, names)
    data = tree_data(levels, names, parents, cells_per_leaf=2)
    orc = Oracle(levels, names, parents)
    nl = len(levels)
    last = nl - 1
    try:
        tree = TaxonomyTree(data=data)
    except Exception as e:
        ctx.exception(e, 'strict tree rejected')
        return 'EXC'
    ctx.reach('built')
    try:
        # --- serialise / re-read
        t2 = TaxonomyTree.from_str(tree.to_str())
        ctx.check(t2 == tree and t2._data == json.loads(json.dumps(data)),
                  'serialise + re-read reproduces the tree')
        t3 = TaxonomyTree.from_str(tree.to_str(drop_cells=True))
        ctx.check(t3.is_equal_to(tree) and
                  all(t3.rows_for_leaf(x) == [] for x in names[last]),
                  'serialising without cells keeps the structure, drops '
                  'the cell lists')
        # --- children partition the node's leaves; as_leaves == oracle
        al = tree.as_leaves
        for li in range(nl):
            for n in names[li]:
                ctx.check(sorted(al[levels[li]][n]) == orc.leaves(li, n)
                          and len(al[levels[li]][n])
                          == len(set(al[levels[li]][n])),
                          'descendant leaves of a node are exactly the '
                          'leaves below it, each once')
                if li < last:
                    kids = tree.children(levels[li], n)
                    ctx.check(sorted(kids) == sorted(orc.kids(li, n)),
                              'children() lists the node\'s children')
                    un = [x for k in kids for x in al[levels[li + 1]][k]]
                    ctx.check(sorted(un) == sorted(al[levels[li]][n])
                              and len(un) == len(set(un)),
                              'leaves of the children partition the '
                              'node\'s leaves')
                    for k in kids:
                        ctx.check(tree.parents(levels[li + 1], k)[
                            levels[li]] == n,
                            'parents() inverts children()')
                if li > 0:
                    pp = tree.parents(levels[li], n)
                    ctx.check(pp == {levels[j]: orc.ancestor(li, n, j)
                                     for j in range(li)},
                              'parents() lists every ancestor')
                    ctx.check(n in tree.children(levels[li - 1],
                                                 pp[levels[li - 1]]),
                              'children() inverts parents()')
        # --- flatten
        fl = tree.flatten()
        ctx.check(fl.hierarchy == [levels[last]] and
                  sorted(fl.all_leaves) == sorted(names[last]) and
                  fl.leaf_to_cells == tree.leaf_to_cells,
                  'flatten keeps the leaf set and the cells')
        # --- drop every droppable level
        for di in range(nl - 1):
            if nl == 1:
                break
            dt = tree.drop_level(levels[di])
            kept = [x for x in levels if x != levels[di]]
            ctx.check(dt.hierarchy == kept, 'dropped level is gone')
            ctx.check(sorted(dt.all_leaves) == sorted(names[last]) and
                      dt.leaf_to_cells == tree.leaf_to_cells,
                      'drop keeps the leaf set and the cells')
            for li in range(nl):
                if li == di:
                    continue
                ctx.check(sorted(dt.nodes_at_level(levels[li]))
                          == sorted(names[li]),
                          'drop keeps the nodes of the other levels')
                for n in names[li]:
                    if li > 0 and any(j != di for j in range(li)):
                        pp = dt.parents(levels[li], n)
                        ctx.check(pp == {levels[j]: orc.ancestor(li, n, j)
                                         for j in range(li) if j != di},
                                  'drop keeps every ancestor at the '
                                  'remaining levels')
            dal = dt.as_leaves
            for li in range(nl):
                if li == di:
                    continue
                for n in names[li]:
                    ctx.check(sorted(dal[levels[li]][n])
                              == orc.leaves(li, n),
                              'drop keeps the leaves below every '
                              'remaining node')
        # --- leaf pairs to compare
        for parent in tree.all_parents:
            got = tree.leaves_to_compare(parent)
            if parent is None:
                kids = [(0, n) for n in names[0]]
            else:
                li = levels.index(parent[0])
                kids = [(li + 1, k) for k in orc.kids(li, parent[1])]
            want = set()
            for (la, a), (lb, b) in itertools.combinations(kids, 2):
                for x in orc.leaves(la, a):
                    for y in orc.leaves(lb, b):
                        want.add((levels[last],) + tuple(sorted((x, y))))
            ctx.check(len(got) == len(set(got)), 'each leaf pair listed once')
            ctx.check(set(got) == want, 'leaf pairs == unordered pairs of '
                      'leaves under two different children')
            ctx.check(all(p[1] < p[2] for p in got),
                      'pairs are alphabetised, no leaf paired with itself')
    except Exception as e:
        ctx.exception(e)
        return 'EXC ' + type(e).__name__
    return 'ok'


def h_records(ctx, case):
    """building the tree from per-cell label columns reproduces exactly
    the label combinations present"""
    sizes = case['sizes']
    levels, names = level_names(sizes)
    parents = symbolic_parents(ctx, sizes, onto=True)
    orc = Oracle(levels, names, parents)
    last = len(levels) - 1
    recs = []
    for leaf in names[last]:
        for _ in range(1 + ctx.choice(f"ncell_{leaf}", 2)):
            recs.append({levels[j]: orc.ancestor(last, leaf, j)
                         for j in range(len(levels))})
    order = ctx.perm('row_order', len(recs)) if len(recs) <= 4 \
        else list(range(len(recs)))
    recs = [recs[i] for i in order]
    if case.get('edit') and len(levels) > 1 and ctx.flag('edit_record'):
        # malformed input: one row gets another label at one coarser
        # level => some node may end up with two parents
        ri = ctx.choice('edit_row', len(recs))
        li = ctx.choice('edit_level', len(levels) - 1)
        others = [x for x in names[li] if x != recs[ri][levels[li]]]
        if not others:
            raise core.PathAbort('no other label')
        recs[ri] = dict(recs[ri])
        recs[ri][levels[li]] = others[ctx.choice('edit_label', len(others))]
        # expected: accepted iff every node still has exactly one parent
        ok = True
        for a, b in zip(levels[:-1], levels[1:]):
            par = {}
            for r in recs:
                if par.setdefault(r[b], r[a]) != r[a]:
                    ok = False
        try:
            t = TU.get_taxonomy_tree(copy.deepcopy(recs), list(levels))
            got = True
        except RuntimeError:
            got = False
        ctx.reach('edited')
        ctx.check(got == ok, 'label columns in which a node has two '
                  'parents are rejected, all others accepted')
        if got and ok:
            for a, b in zip(levels[:-1], levels[1:]):
                for n in t[a]:
                    ctx.check(set(t[a][n]) == {r[b] for r in recs
                                               if r[a] == n},
                              'children == label combinations present')
        return 'edited'
    try:
        t = TU.get_taxonomy_tree(copy.deepcopy(recs), list(levels))
    except Exception as e:
        ctx.exception(e)
        return 'EXC ' + type(e).__name__
    ctx.reach('built')
    for li in range(last):
        for n in names[li]:
            ctx.check(n in t[levels[li]] and set(t[levels[li]][n])
                      == set(orc.kids(li, n)),
                      'children == label combinations present')
        ctx.check(set(t[levels[li]]) == set(names[li]), 'nodes == labels')
    for leaf in names[last]:
        rows = [i for i, r in enumerate(recs) if r[levels[last]] == leaf]
        ctx.check(t[levels[last]][leaf] == rows, 'leaf -> its rows')
    return 'ok'


def sizes_upto(max_levels, max_leaves, max_nodes=4):
    out = []
    for nl in range(1, max_levels + 1):
        for s in itertools.product(range(1, max_nodes + 1), repeat=nl):
            if s[-1] <= max_leaves and sum(s) <= max_leaves + 2 * (nl - 1) \
                    and all(x <= max_leaves for x in s):
                out.append({'sizes': list(s)})
    return out


Q_SIZES = [{'sizes': s} for s in ([1], [2], [3], [1, 2], [2, 2], [2, 3],
                                  [3, 3], [1, 2, 3], [2, 2, 3],
                                  [3, 2], [2, 1, 2])]
T_SIZES = [{'sizes': s} for s in
           ([1], [2], [4], [1, 2], [2, 2], [2, 3], [3, 3], [2, 4], [3, 4],
            [2, 5], [3, 5], [2, 6], [1, 2, 3], [2, 2, 3], [2, 3, 4],
            [2, 3, 5], [2, 3, 6], [3, 3, 4], [3, 4, 5], [2, 4, 6], [3, 2],
            [2, 1, 2], [1, 2, 3, 4], [2, 2, 3, 4], [2, 3, 3, 4],
            [2, 3, 4, 5], [2, 2, 3, 6], [2, 3, 4, 6])]

def h_release_tables(ctx, case):
    """get_tree_above_leaves (the data-release route): the parent ->
    children table holds exactly the (parent, child) pairs named by the
    rows of cluster_annotation_term.csv - a row repeated verbatim changes
    nothing, a row giving a term a second parent shows up (so that the
    validator can refuse the tree)"""
    import os
    import cell_type_mapper.taxonomy.data_release_utils as DR
    from harness.common import level_names, symbolic_parents, sandbox_root
    sizes = case['sizes']
    levels, names = level_names(sizes)
    parents = symbolic_parents(ctx, sizes, onto=False)
    rows = []
    for li in range(1, len(levels)):
        for i, n in enumerate(names[li]):
            rows.append((n, levels[li], names[li - 1][parents[li][i]],
                         levels[li - 1]))
    extra = ['none', 'repeat', 'second_parent'][ctx.choice('extra_row', 3)]
    if extra != 'none':
        k = ctx.choice('which_row', len(rows))
        n, lv, p, plv = rows[k]
        if extra == 'second_parent':
            li = levels.index(lv)
            others = [x for x in names[li - 1] if x != p]
            if not others:
                raise core.PathAbort('no second parent available')
            p = others[ctx.choice('other_parent', len(others))]
        where = ctx.choice('insert_at', len(rows) + 1)
        rows.insert(where, (n, lv, p, plv))
    want = {}
    for n, lv, p, plv in rows:
        want.setdefault(plv, {}).setdefault(p, set()).add(n)
    want = {a: {b: sorted(c) for b, c in d.items()} for a, d in want.items()}
    d = os.path.join(sandbox_root(), 'release')
    os.makedirs(d, exist_ok=True)
    path = os.path.join(d, 'cluster_annotation_term.csv')
    with open(path, 'w') as f:
        f.write('label,name,cluster_annotation_term_set_label,'
                'parent_term_label,parent_term_set_label\n')
        # a row of the top level (no parent) as in real releases
        f.write(f"{names[0][0]},x,{levels[0]},,\n")
        for n, lv, p, plv in rows:
            f.write(f"{n},x,{lv},{p},{plv}\n")
    try:
        got = DR.get_tree_above_leaves(csv_path=path, hierarchy=levels)
    except Exception as e:
        ctx.exception(e)
        return 'EXC ' + type(e).__name__
    ctx.reach('read')
    ctx.check({a: {b: sorted(c) for b, c in dd.items()}
               for a, dd in got.items()} == want,
              f'parent -> children table == the rows of the file '
              f'(extra row: {extra})')
    return extra


HARNESSES = [
    Harness('tree_from_release_tables', h_release_tables,
            cases=[{'sizes': [2, 3]}, {'sizes': [2, 2, 3]}],
            thorough_cases=[{'sizes': [2, 3, 4]}],
            funcs=['data_release_utils.get_tree_above_leaves',
                   'get_header_map'],
            bounds='2-3 levels, every child->parent map; optionally one '
                   'row repeated verbatim or one row naming a second '
                   'parent, inserted anywhere',
            outside='the other two release tables (cell metadata, '
                    'membership) and TaxonomyTree.from_data_release as a '
                    'whole',
            expect_reach=['read']),
    Harness('validator_vs_strict_tree', h_validate,
            cases=Q_SIZES + [{'sizes': [2, 3], 'empty_leaves': True},
                             {'sizes': [2, 2], 'alias': True}],
            thorough_cases=T_SIZES[:24]
            + [{'sizes': [2, 3], 'empty_leaves': True},
               {'sizes': [2, 2, 3], 'empty_leaves': True},
               {'sizes': [2, 2, 3], 'alias': True}], classify=classify,
            funcs=['taxonomy.utils.validate_taxonomy_tree',
                   'get_child_to_parent', 'TaxonomyTree.__init__'],
            bounds='every child->parent map of the listed level sizes (<=3 '
                   'levels/4 leaves quick; <=4 levels/6 leaves thorough) '
                   'x every single edit of kind ' + ', '.join(EDITS[1:])
                   + ' at every position',
            outside='name strings are opaque (fixed distinct names in '
                    'non-alphabetical index order)',
            expect_reach=['accepted', 'rejected'], selftest=0, split=32),
    Harness('tree_transformations', h_transform,
            cases=Q_SIZES + [{'sizes': [2, 2, 3], 'alias': True},
                             {'sizes': [1, 2, 2, 3], 'alias': True}],
            thorough_cases=T_SIZES + [{'sizes': [2, 2, 3], 'alias': True},
                                      {'sizes': [2, 2, 2, 3],
                                       'alias': True},
                                      {'sizes': [1, 2, 3, 4],
                                       'alias': True}],
            funcs=['TaxonomyTree.flatten', '_drop_level', 'to_str',
                   'from_str', 'parents', 'children', 'as_leaves',
                   'leaves_to_compare', 'all_parents',
                   'utils.convert_tree_to_leaves', '_get_leaves_from_tree',
                   'get_all_leaf_pairs', 'get_child_to_parent'],
            bounds='every child->parent map of the listed level sizes; '
                   'every droppable level; every parent',
            expect_reach=['built'], selftest=0, split=32),
    Harness('tree_from_records', h_records,
            cases=[{'sizes': s} for s in ([2], [1, 2], [2, 3], [2, 2, 3])]
            + [{'sizes': [2, 2, 2], 'edit': True},
               {'sizes': [2, 3], 'edit': True}],
            thorough_cases=[{'sizes': s} for s in
                            ([2], [1, 2], [2, 3], [2, 2, 3], [2, 3, 4],
                             [2, 2, 3, 4])]
            + [{'sizes': [2, 2, 2], 'edit': True},
               {'sizes': [2, 2, 3], 'edit': True},
               {'sizes': [2, 3], 'edit': True}],
            funcs=['taxonomy.utils.get_taxonomy_tree'],
            bounds='every onto child->parent map of the listed sizes, 1-2 '
                   'cells per leaf, every row order for <=4 rows; plus one '
                   'edit of one label of one row (malformed columns)',
            expect_reach=['built', 'edited'], selftest=0, split=32),
]
