"""C08 — marker genes are reconciled with the query by name, with ancestor
fallback.  Real functions: marker_cache_v2.validate_marker_lookup,
create_marker_cache_from_specified_markers, write_query_markers_to_h5,
serialize_markers; matching.assemble_query_data;
type_assignment.utils.reconcile_taxonomy_and_markers;
CellByGeneMatrix.downsample_genes / downsample_cells."""
import warnings

import numpy as np

from symx import core
from harness.common import (Harness, patch, install_np, install_h5, shimmed,
                            arr, set_mode, Env, level_names, tree_data,
                            symbolic_parents, reals, same_value)
from harness.C10 import Oracle

import cell_type_mapper.type_assignment.marker_cache_v2 as MC
import cell_type_mapper.type_assignment.matching as MT
import cell_type_mapper.type_assignment.utils as TAU
import cell_type_mapper.cell_by_gene.cell_by_gene as CBG
from cell_type_mapper.taxonomy.taxonomy_tree import TaxonomyTree
from cell_type_mapper.cell_by_gene.cell_by_gene import CellByGeneMatrix

REF_GENES = ['gA', 'gC', 'gB', 'gD']      # reference universe (prefix used)
FOREIGN = 'gZ'                            # never in the reference


def setup(case, mode):
    set_mode(mode)
    warnings.simplefilter('ignore')
    if shimmed(mode):
        install_h5(MC, MT, TAU)
        install_np(CBG)


def parent_key(p):
    return 'None' if p is None else f"{p[0]}/{p[1]}"


def model(orc, levels, names, table, query, minm):
    """reference model written from the statement.  Returns
    (used: dict parent_key -> set of genes, error: bool)"""
    nl = len(levels)
    q = set(query)
    used = {}
    err = False
    parents = [None] + [(levels[li], n) for li in range(nl - 1)
                        for n in names[li]]
    for p in parents:
        kids = list(names[0]) if p is None else \
            orc.kids(levels.index(p[0]), p[1])
        if len(kids) < 2:
            continue                    # needs no markers
        own = set(table.get(parent_key(p), []))
        if p is None:
            if not own:
                err = True
                continue
            genes = own & q
            if not genes:
                err = True
            used[parent_key(p)] = genes
            continue
        genes = set(own)
        if len(genes & q) < minm:
            li = levels.index(p[0])
            anc, n = [], p[1]
            for lj in range(li, 0, -1):
                n = orc.parent(lj, n)
                anc.append((levels[lj - 1], n))
            for a in anc:               # nearest first
                if parent_key(a) in table:
                    genes |= set(table[parent_key(a)])
                    if len(genes & q) >= minm:
                        break
            if len(genes & q) < minm and 'None' in table:
                genes |= set(table['None'])
        genes &= q
        if not genes:
            err = True
        used[parent_key(p)] = genes
    return used, err


def h_reconcile(ctx, case):
    sizes = case['sizes']
    ng = case['genes']
    levels, names = level_names(sizes)
    if case.get('parents'):
        parents = {li + 1: list(p) for li, p in enumerate(case['parents'])}
    else:
        parents = symbolic_parents(ctx, sizes, onto=case.get('onto', True))
    data = tree_data(levels, names, parents)
    orc = Oracle(levels, names, parents)
    tree = TaxonomyTree(data=data)
    ref = [REF_GENES[i] for i in ctx.perm('ref_order', ng)] \
        if case.get('perm_ref') else REF_GENES[:ng]
    # query genes: any subset of the universe in any order, plus a gene
    # the reference does not have
    qsub = list(REF_GENES[:ng]) if case.get('full_query') else \
        [REF_GENES[i] for i in ctx.subset('query_has', ng)]
    if case.get('perm_query') and len(qsub) > 1:
        qsub = [qsub[i] for i in ctx.perm('query_order', len(qsub))]
    # optionally many more query genes than reference genes (index
    # types change at 256 columns)
    query = [f'filler{i}' for i in range(case.get('wide_query', 0))] \
        + ['qOnly'] + qsub
    minm = 1 + ctx.choice('min_markers-1', case.get('max_min', 2))
    all_par = [None] + [(levels[li], n) for li in range(len(levels) - 1)
                        for n in names[li]]
    table = {}
    may_err = False      # inputs on which the statement allows either
    foreign_needed = False
    for p in all_par:
        k = parent_key(p)
        if case.get('only_chain') and p is not None and \
                not p[1].endswith('x0'):
            continue      # only the first node of each level is listed
        if not ctx.flag(f"listed[{k}]"):
            continue
        lst = [REF_GENES[i] for i in ctx.subset(f"markers[{k}]", ng)]
        if case.get('foreign'):
            fk = ctx.choice(f"foreign[{k}]", 3)
            if fk == 1:
                lst.append(FOREIGN)      # unknown to reference and query
                foreign_needed = True
            elif fk == 2:
                lst.append('qOnly')      # in the query, not the reference
                foreign_needed = True
        if case.get('dups') and lst and ctx.flag(f"dup[{k}]"):
            lst.append(lst[0])
        table[k] = lst
    env = Env(ctx)
    cache = env.path('cache.h5')
    want, want_err = model(orc, levels, names, table, query, minm)
    # a listed gene unknown to the reference must end in an error
    foreign_err = foreign_needed
    root_single = len(names[0]) == 1
    if root_single and not (set(table.get('None', [])) & set(query)):
        # 'root without usable markers => error' vs 'a parent with a
        # single child needs no markers': either outcome is accepted
        may_err = True
    try:
        MC.create_marker_cache_from_specified_markers(
            marker_lookup=dict(table), reference_gene_names=list(ref),
            query_gene_names=list(query), output_cache_path=cache,
            taxonomy_tree=tree, log=None, min_markers=minm)
        raised = None
        ok, msg = TAU.reconcile_taxonomy_and_markers(tree, cache)
        if not ok:
            raised = RuntimeError('taxonomy_tree and marker_cache appear '
                                  'to describe different taxonomies ' + msg)
    except RuntimeError as e:
        raised = e
    except Exception as e:
        ctx.exception(e)
        return 'EXC ' + type(e).__name__
    if want_err or foreign_err:
        ctx.reach('error expected')
        ctx.check(raised is not None, 'unusable root / marker unknown to '
                  'the reference / parent left without any query gene '
                  '=> error instead of a cache')
        return 'error'
    if may_err and raised is not None:
        return 'error (allowed)'
    if raised is not None:
        # an error the statement does not promise: only acceptable when a
        # *needed* parent cannot be served; anything else is a finding
        ctx.note('unneeded_entry_without_overlap', [
            k for k in table if k not in want and table[k]
            and not (set(table[k]) & set(query))])
        ctx.exception(raised, 'error although every parent that needs '
                      'markers can be served: ' + str(raised)[-90:])
        return 'unexpected error'
    ctx.reach('cache written')
    try:
        reported = MC.serialize_markers(cache, tree)
        nleaf = len(names[-1])
        qx = reals(ctx, 'q', (1, len(query)))
        rx = reals(ctx, 'r', (nleaf, len(ref)))
        leaves_sorted = sorted(names[-1])
        qm = CellByGeneMatrix(arr(ctx, qx), list(query), 'log2CPM')
        # the leaf-mean matrix has its own column order
        mo = ctx.perm('means_order', len(ref)) if case.get('perm_means') \
            else list(range(len(ref)))
        rm = CellByGeneMatrix(arr(ctx, rx[:, mo]), [ref[i] for i in mo],
                              'log2CPM',
                              cell_identifiers=list(leaves_sorted))
        for p in all_par:
            k = parent_key(p)
            if k not in want:
                if p is not None:
                    ctx.check(reported.get(k, []) == [],
                              'single-child parent reports no markers')
                continue
            ctx.check(set(reported[k]) == want[k] and
                      len(reported[k]) == len(set(reported[k])),
                      'reported markers == own markers in the query, '
                      'patched from ancestors nearest first up to the '
                      'minimum, then the root')
            got = MT.assemble_query_data(qm, rm, tree, cache, p)
            gq, gr = got['query_data'], got['reference_data']
            ctx.check(list(gq.gene_identifiers) == list(gr.gene_identifiers)
                      and set(gq.gene_identifiers) == want[k]
                      and list(gq.gene_identifiers) == list(reported[k]),
                      'genes used == genes reported, same order for query '
                      'and reference')
            li = -1 if p is None else levels.index(p[0])
            kids = list(names[0]) if p is None else orc.kids(li, p[1])
            under = sorted(x for kid in kids
                           for x in orc.leaves(li + 1, kid))
            ctx.check(list(gr.cell_identifiers) == under,
                      'reference rows == leaves under the parent')
            ctx.check(list(got['reference_types']) == [
                [kid for kid in kids if x in orc.leaves(li + 1, kid)][0]
                for x in under], 'reference rows labelled with the owning '
                'child')
            for j, g in enumerate(gq.gene_identifiers):
                ctx.check(same_value(ctx, gq.data[0, j],
                                     qx[0, query.index(g)]),
                          'query column paired by gene name')
                for i, lf in enumerate(under):
                    ctx.check(same_value(
                        ctx, gr.data[i, j],
                        rx[leaves_sorted.index(lf), ref.index(g)]),
                        'reference column paired by gene name')
    except Exception as e:
        ctx.exception(e)
        return 'EXC ' + type(e).__name__
    return 'ok'


def classify(f, case):
    if "arker cache is missing" in f['label'] and \
            case.get('onto') is False:
        return ('F7:childless-inner-node:reconcile_taxonomy_and_markers-'
                'demands-a-marker-group')
    n = f.get('notes', {}).get('unneeded_entry_without_overlap')
    if n:
        return ('F12:marker-list-of-a-parent-that-needs-no-markers-has-no-'
                'query-overlap:RuntimeError')
    return None


FUNCS = ['marker_cache_v2.create_marker_cache_from_specified_markers',
         'validate_marker_lookup', 'write_query_markers_to_h5',
         'serialize_markers', 'matching.assemble_query_data',
         'type_assignment.utils.reconcile_taxonomy_and_markers',
         'CellByGeneMatrix.downsample_genes', 'downsample_cells',
         'TaxonomyTree.parents/children/all_parents/as_leaves']

def _sc_setup(case, mode):
    from harness import stagechecks as SC
    SC.setup(case, mode)


def h_unknown_marker_stage(ctx, case):
    """the whole run: a listed marker that the reference does not have
    ends the run with an error - wherever it is listed, with or without
    flattening, whether or not the query has it; a table of known genes
    maps"""
    from harness import stage as ST
    from harness import stagechecks as SC
    inp = SC.inputs(case)
    work = ST.new_work()
    table = {k: list(v) for k, v in ST.MARKERS.items()}
    where = [None, 'None', 'class/clsB', 'subclass/subA'][
        ctx.choice('unknown_gene_listed_under', 4)]
    gene = ['not_a_gene', 'qx'][ctx.choice('unknown_gene', 2)]
    # not_a_gene: in neither file; qx: in the query only
    if where is not None:
        table[where].append(gene)
    flatten = ctx.flag('flatten')
    drop = [None, 'class', 'subclass'][ctx.choice('drop_level', 3)]
    cfg = ST.make_config(inp, work, bootstrap_iteration=3)
    cfg['query_markers'] = {'serialized_lookup':
                            inp.markers_file(table, 'unk')}
    cfg['flatten'] = flatten
    cfg['drop_level'] = drop
    res = ST.run(cfg)
    ST.drop_work(work)
    dropped_away = where is not None and drop is not None and \
        where.startswith(drop + '/') and not flatten
    if where is None:
        ctx.reach('known genes only')
        ctx.check(res['raised'] is None, 'a table of reference genes maps: '
                  + str(res['raised'])[:80])
        return 'mapped'
    if dropped_away:
        # the list belongs to a parent the run no longer has: either
        # outcome is accepted
        ctx.reach('list of a removed parent')
        return 'either'
    ctx.reach('unknown gene listed')
    ctx.check(res['raised'] is not None, f'a marker unknown to the '
              f'reference ({gene}, listed under {where}, flatten={flatten}, '
              f'drop_level={drop}) ends the run with an error')
    return 'error'


HARNESSES = [
    Harness('unknown_marker_ends_the_run', h_unknown_marker_stage,
            setup=_sc_setup, cases=[{}],
            funcs=['from_specified_markers.run_mapping', '_run_mapping '
                   '(flatten / drop_level handling of the marker table)',
                   'marker_cache_v2.create_marker_cache_from_specified_'
                   'markers'],
            stubs=['multiprocessing -> scheduler model'],
            bounds='real files (three-level taxonomy, 7 reference genes); '
                   'a gene unknown to the reference (in the query or not) '
                   'listed under the root / a class / a subclass / '
                   'nowhere; flatten on/off; drop of class / subclass / '
                   'none',
            expect_reach=['known genes only', 'unknown gene listed']),
    Harness('reconcile_markers', h_reconcile, setup=setup,
            cases=[{'sizes': [2], 'genes': 3, 'perm_ref': True,
                    'perm_query': True, 'dups': True},
                   {'sizes': [2], 'genes': 3, 'perm_means': True},
                   {'sizes': [2], 'genes': 2, 'foreign': True},
                   {'sizes': [2], 'genes': 2, 'wide_query': 300},
                   {'sizes': [2, 3], 'genes': 2, 'max_min': 2},
                   {'sizes': [1, 2], 'genes': 2, 'foreign': True},
                   {'sizes': [3, 2], 'genes': 1, 'onto': False},
                   # nearest-first order of the ancestor fallback needs a
                   # parent with two proper ancestors below the root
                   {'sizes': [1, 1, 1, 2], 'genes': 2, 'max_min': 1},
                   {'sizes': [1, 1, 2], 'genes': 2, 'max_min': 1},
                   # a parent below the minimum whose nearest ancestor is
                   # below the minimum too (three levels of real choices)
                   {'sizes': [2, 3, 4], 'genes': 3, 'max_min': 2,
                    'parents': [[0, 0, 1], [0, 0, 1, 2]],
                    'only_chain': True, 'full_query': True}],
            thorough_cases=[
                {'sizes': [2], 'genes': 3, 'perm_ref': True,
                 'perm_query': True, 'foreign': True, 'dups': True},
                {'sizes': [2, 3], 'genes': 3, 'max_min': 3},
                {'sizes': [1, 2], 'genes': 3, 'foreign': True,
                 'max_min': 3},
                {'sizes': [2, 2, 3], 'genes': 2, 'max_min': 2},
                {'sizes': [1, 2, 3], 'genes': 2, 'max_min': 2},
                {'sizes': [2, 3], 'genes': 2, 'foreign': True,
                 'perm_query': True},
                {'sizes': [3, 2], 'genes': 2, 'onto': False},
                {'sizes': [1, 1, 1, 2], 'genes': 3, 'max_min': 2},
                {'sizes': [1, 2, 2, 3], 'genes': 2, 'max_min': 1},
                {'sizes': [1, 1, 2], 'genes': 2, 'foreign': True},
                {'sizes': [2, 2, 2], 'genes': 2, 'onto': False}],
            funcs=FUNCS, classify=classify,
            stubs=['h5py -> in-memory model'],
            bounds='every onto child->parent map of the listed level '
                   'sizes; reference universe of 2-3 genes (every order '
                   'where stated); query = any subset (any order where '
                   'stated) + one query-only gene; every marker table '
                   '(each parent absent / any subset of the universe, '
                   'optional gene unknown to the reference, optional '
                   'duplicate); min_markers in [1,2] (thorough 3); query '
                   'and reference values symbolic',
            outside='min_markers=0 (the fallback clause is then never '
                    'triggered); flattening (C17); names are opaque',
            expect_reach=['error expected', 'cache written'], selftest=6,
            split=64),
]
