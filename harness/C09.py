"""C09 — reference statistics equal direct computation and are additive.
Real functions: precompute_from_anndata.precompute_summary_stats_from_h5ad_
and_lookup / _precompute_summary_stats_from_h5ad_and_lookup /
_process_chunk_spec / _process_chunk, stats_utils.summary_stats_for_chunk,
precompute._create_empty_stats_file, AnnDataRowIterator.get_chunk,
CellByGeneMatrix.to_log2CPM_in_place."""
from symx import core
from symx.core import And, Or, Not, Implies, Sum
from harness.common import Harness, Env
from harness import refstats as RS


def h_stage(ctx, case):
    env = Env(ctx)
    inp = RS.build_inputs(ctx, case, env)
    res = RS.run_stage(ctx, case, env, inp)
    mismatch = any(g != inp['genes'] for g in inp['file_genes'].values())
    if mismatch:
        # files whose gene tables differ cannot be added column by column
        ctx.reach('gene tables differ')
        ctx.check(isinstance(res['raised'], RuntimeError),
                  'reference files with different gene orders are refused '
                  '(never summed positionally)')
        return 'refused'
    if res['raised'] is not None:
        ctx.exception(res['raised'])
        return 'EXC'
    ctx.reach('written')
    RS.check_stats(ctx, inp, res, env)
    import os
    left = [n for n in os.listdir(env.dir)
            if not n.endswith('.h5ad') and n != 'stats.h5'
            and not (case.get('same_basename') and n.startswith('batch'))]
    ctx.check(left == [], 'nothing left in the scratch directory')
    return 'ok'


def setup_trunc(case, mode):
    from harness.common import set_mode, shimmed, install_np, install_h5
    import cell_type_mapper.diff_exp.truncate_precompute as TP
    import cell_type_mapper.diff_exp.precompute_utils as PU
    import cell_type_mapper.utils.h5_utils as HU
    import cell_type_mapper.taxonomy.taxonomy_tree as TT
    set_mode(mode)
    if shimmed(mode):
        install_np(TP, PU, HU)
        install_h5(TP, PU, HU, TT)


def _write_stats(ctx, env, path, tag, leaves, row_of, genes, tree,
                 concrete_counts=False):
    """a statistics file with symbolic tables; returns the tables"""
    import json
    import numpy as np
    from harness.common import reals, ints, sarr
    n, g = len(leaves), len(genes)
    tabs = {'n_cells': ints(ctx, f"{tag}.n", (n,), 0, 50),
            'sum': reals(ctx, f"{tag}.sum", (n, g)),
            'sumsq': reals(ctx, f"{tag}.sumsq", (n, g), 0, None),
            'gt0': ints(ctx, f"{tag}.gt0", (n, g), 0, 50),
            'gt1': ints(ctx, f"{tag}.gt1", (n, g), 0, 50),
            'ge1': ints(ctx, f"{tag}.ge1", (n, g), 0, 50)}
    if concrete_counts:
        import numpy as _np
        for k in ('gt0', 'gt1', 'ge1'):
            tabs[k] = _np.array([[(3 * i + j) % 4 for j in range(g)]
                                 for i in range(n)], dtype=object)
    with env.File(path, 'w') as f:
        f.create_dataset('col_names',
                         data=json.dumps(genes).encode('utf-8'))
        f.create_dataset('cluster_to_row', data=json.dumps(
            {lf: row_of[lf] for lf in leaves}).encode('utf-8'))
        f.create_dataset('taxonomy_tree',
                         data=tree.to_str().encode('utf-8'))
        for k, v in tabs.items():
            isint = k not in ('sum', 'sumsq')
            if env.fake:
                f.create_dataset(k, data=sarr(v), dtype=int if isint
                                 else float)
            else:
                f.create_dataset(k, data=np.array(
                    v.tolist(), dtype=int if isint else float))
    return tabs


def h_truncate(ctx, case):
    """truncate_precomputed_stats_file: collapsing to a coarser hierarchy
    gives the statistics of that hierarchy, addressed through the file's
    own cluster-to-row table"""
    import json
    from harness.common import level_names, tree_data, symbolic_parents
    from harness.C10 import Oracle
    from cell_type_mapper.taxonomy.taxonomy_tree import TaxonomyTree
    import cell_type_mapper.diff_exp.truncate_precompute as TP
    sizes = case['sizes']
    levels, names = level_names(sizes)
    parents = symbolic_parents(ctx, sizes, onto=True)
    data = tree_data(levels, names, parents)
    orc = Oracle(levels, names, parents)
    tree = TaxonomyTree(data=data)
    last = len(levels) - 1
    leaves = list(names[last])
    # the row table need not be alphabetical
    perm = ctx.perm('row_order', len(leaves))
    row_of = {lf: perm[i] for i, lf in enumerate(leaves)}
    genes = ['gB', 'gA'][:case.get('genes', 1)]
    env = Env(ctx)
    src = env.path('stats.h5')
    tabs = _write_stats(ctx, env, src, 's', leaves, row_of, genes, tree)
    # any strict sub-hierarchy (order preserved)
    keep = [lv for lv in levels if ctx.flag(f"keep[{lv}]")]
    if not keep or keep == levels:
        raise core.PathAbort('not a strict sub-hierarchy')
    out = env.path('truncated.h5')
    try:
        TP.truncate_precomputed_stats_file(src, out, list(keep))
    except Exception as e:
        ctx.exception(e)
        return 'EXC ' + type(e).__name__
    ctx.reach('truncated')
    nl = levels.index(keep[-1])
    with env.File(out, 'r') as f:
        c2r = json.loads(f['cluster_to_row'][()].decode('utf-8'))
        t2 = TaxonomyTree.from_str(f['taxonomy_tree'][()].decode('utf-8'))
        ctx.check(json.loads(f['col_names'][()].decode('utf-8')) == genes,
                  'gene table kept')
        ctx.check(t2.hierarchy == keep and
                  sorted(t2.all_leaves) == sorted(names[nl]),
                  'stored taxonomy is the coarser hierarchy')
        ctx.check(sorted(c2r) == sorted(names[nl]) and
                  sorted(c2r.values()) == list(range(len(names[nl]))),
                  'row table addresses the new leaves')
        for k, v in tabs.items():
            got = f[k][()]
            for node in names[nl]:
                under = orc.leaves(nl, node)
                if node not in c2r:
                    continue
                r = c2r[node]
                if v.ndim == 1:
                    ctx.check(ctx.eq(got[r], Sum([v[row_of[lf]]
                                                  for lf in under])),
                              f'{k} of a merged leaf == sum over its old '
                              'leaves')
                else:
                    for g in range(len(genes)):
                        ctx.check(ctx.eq(got[r, g],
                                         Sum([v[row_of[lf], g]
                                              for lf in under])),
                                  f'{k} of a merged leaf == sum over its '
                                  'old leaves')
    return 'ok'


def h_merge(ctx, case):
    """merge_precompute_files: per cluster, the row of the dataset with
    the most cells"""
    import json
    from cell_type_mapper.taxonomy.taxonomy_tree import TaxonomyTree
    import cell_type_mapper.diff_exp.precompute_utils as PU
    leaves = ['clB', 'clA'][:case.get('clusters', 2)]
    tree = TaxonomyTree(data={'hierarchy': ['cluster'],
                              'cluster': {lf: [] for lf in leaves}})
    row_of = {lf: i for i, lf in enumerate(sorted(leaves))}
    genes = ['g0']
    env = Env(ctx)
    paths, tabs = [], []
    for i in range(case['files']):
        p = env.path(f"stats_{'bac'[i]}.h5")
        tabs.append(_write_stats(ctx, env, p, f"f{i}", leaves, row_of,
                                 genes, tree))
        paths.append(p)
    out = env.path('merged.h5')
    try:
        PU.merge_precompute_files(list(paths), out)
    except Exception as e:
        ctx.exception(e)
        return 'EXC ' + type(e).__name__
    ctx.reach('merged')
    with env.File(out, 'r') as f:
        c2r = json.loads(f['cluster_to_row'][()].decode('utf-8'))
        ctx.check(c2r == row_of, 'row table kept')
        got = {k: f[k][()] for k in tabs[0]}
    for lf in leaves:
        r = row_of[lf]
        ns = [t['n_cells'][r] for t in tabs]
        # the merged row must be the row of SOME dataset whose cell count
        # for this cluster is maximal
        opts = []
        for i, t in enumerate(tabs):
            ismax = And(*[ns[i] >= x for x in ns])
            same = And(ctx.eq(got['n_cells'][r], t['n_cells'][r]),
                       *[ctx.eq(got[k][r, 0], t[k][r, 0])
                         for k in t if k != 'n_cells'])
            opts.append(And(ismax, same))
        ctx.check(Or(*opts), 'merged row == row of a dataset with the most '
                  'cells for that cluster')
    return 'ok'


def setup_abc(case, mode):
    import warnings
    from symx import mpmodel
    from harness.common import patch
    warnings.simplefilter('ignore')
    import cell_type_mapper.cli.precompute_stats_abc as ABC
    import cell_type_mapper.diff_exp.precompute_from_anndata as PFA
    import cell_type_mapper.anndata_iterator.anndata_iterator as AI
    patch(PFA, 'multiprocessing', mpmodel.multiprocessing)
    for m in (ABC, PFA, AI):
        patch(m, 'print', lambda *a, **k: None)


def h_abc_runner(ctx, case):
    """the data-release statistics runner (PrecomputationABCRunner.run
    with a fully specified argument dict) on real release tables and h5ad
    files: every statistics file it writes - one per dataset and the
    combined one, or a single one - holds for every cluster the number of
    member cells (of that dataset) and their summed log2(CPM+1)"""
    import json
    import os
    import shutil
    import anndata
    import h5py
    import numpy as np
    import pandas as pd
    import scipy.sparse as sp
    from symx import mpmodel
    from harness.common import sandbox_root
    import cell_type_mapper.cli.precompute_stats_abc as ABC
    root = os.path.join(sandbox_root(), 'abc')
    shutil.rmtree(root, ignore_errors=True)
    os.makedirs(os.path.join(root, 'scratch'))
    clusters = ['cl0', 'cl1', 'cl2']
    alias = {'cl0': '10', 'cl1': '11', 'cl2': '12'}
    parent = {'cl0': 'A', 'cl1': 'A', 'cl2': 'B'}
    n = 12
    # cell labels as the releases have them: alphanumeric barcodes, or
    # plain digit strings
    style = ['barcode', 'digits'][ctx.choice('cell_label_style', 2)]
    names = [(f"AAC{ii:03d}-1" if style == 'barcode' else str(1000 + ii))
             for ii in range(n)]
    cl_of = [clusters[ii % 3] for ii in range(n)]
    ds_of = [['dsA', 'dsB'][(ii // 3) % 2] for ii in range(n)]
    with_ds = ctx.flag('metadata_has_a_dataset_column')
    split = ctx.flag('split_by_dataset')
    nproc = 1 + ctx.choice('n_processors-1', 2)
    x = np.array([[1.0 + ((3 * i + 5 * g) % 7) for g in range(3)]
                  for i in range(n)])
    meta = os.path.join(root, 'cell_metadata.csv')
    with open(meta, 'w') as f:
        f.write('cell_label,cluster_alias' +
                (',dataset_label' if with_ds else '') + '\n')
        for c, cl, ds in zip(names, cl_of, ds_of):
            f.write(f'{c},{alias[cl]}' + (f',{ds}' if with_ds else '')
                    + '\n')
    memb = os.path.join(root, 'membership.csv')
    with open(memb, 'w') as f:
        f.write('cluster_annotation_term_set_label,'
                'cluster_annotation_term_set_name,'
                'cluster_annotation_term_label,'
                'cluster_annotation_term_name,cluster_alias\n')
        for cl in clusters:
            f.write(f'CLUS,cluster,{cl},{cl}_name,{alias[cl]}\n')
        for p_ in ('A', 'B'):
            f.write(f'CLAS,class,{p_},{p_}_name,{p_}_alias\n')
    annot = os.path.join(root, 'annotation.csv')
    with open(annot, 'w') as f:
        f.write('label,cluster_annotation_term_set_label,'
                'parent_term_label,parent_term_set_label\n')
        for cl in clusters:
            f.write(f'{cl},CLUS,{parent[cl]},CLAS\n')
        for p_ in ('A', 'B'):
            f.write(f'{p_},CLAS,,\n')
    h5ad = os.path.join(root, 'cells.h5ad')
    anndata.AnnData(X=sp.csr_matrix(x), obs=pd.DataFrame(index=names),
                    var=pd.DataFrame(index=['g0', 'g1', 'g2'])
                    ).write_h5ad(h5ad)
    out = os.path.join(root, 'stats.h5')
    runner = ABC.PrecomputationABCRunner.__new__(ABC.PrecomputationABCRunner)
    runner.args = {
        'h5ad_path_list': [h5ad], 'cell_metadata_path': meta,
        'cluster_annotation_path': annot, 'cluster_membership_path': memb,
        'hierarchy': ['CLAS', 'CLUS'], 'normalization': 'raw',
        'output_path': out, 'split_by_dataset': split, 'clobber': True,
        'n_processors': nproc, 'tmp_dir': os.path.join(root, 'scratch'),
        'log_level': 'ERROR', 'input_json': None, 'output_json': None}
    mpmodel.SCHED.reset(K=0)
    try:
        runner.run()
    except Exception as e:
        ctx.exception(e)
        return 'EXC ' + type(e).__name__
    ctx.reach('ran')
    ln = np.log2(1.0 + 1.0e6 * x / x.sum(axis=1)[:, None])
    if split and with_ds:
        files = {ds: os.path.join(root, f'stats.{ds}.h5')
                 for ds in ('dsA', 'dsB', 'combined')}
    else:
        files = {'all': out}
    for tag, path in files.items():
        ok = os.path.exists(path)
        ctx.check(ok, f'statistics file for {tag} written')
        if not ok:
            continue
        with h5py.File(path, 'r') as f:
            c2r = json.loads(f['cluster_to_row'][()].decode('utf-8'))
            nc, sm = f['n_cells'][()], f['sum'][()]
        for cl in clusters:
            def members(ds):
                return np.array([c == cl and (ds is None or d == ds)
                                 for c, d in zip(cl_of, ds_of)])
            if tag == 'combined':
                # merge_precompute_files: each cluster's row is taken from
                # the dataset in which the cluster has the most cells
                per = {ds: members(ds) for ds in ('dsA', 'dsB')}
                best = max(int(m.sum()) for m in per.values())
                ctx.check(int(nc[c2r[cl]]) == best,
                          'combined file: n_cells of the dataset with the '
                          f'most cells of the cluster ({style} cell labels)')
                ctx.check(any(int(m.sum()) == best and np.allclose(
                    sm[c2r[cl]], ln[m].sum(axis=0), rtol=1e-6, atol=1e-9)
                    for m in per.values()),
                    'combined file: sums of that dataset')
                continue
            member = members(None if tag == 'all' else tag)
            ctx.check(int(nc[c2r[cl]]) == int(member.sum()),
                      f'n_cells == number of member cells ({style} cell '
                      f'labels, file: {tag})')
            ctx.check(bool(np.allclose(sm[c2r[cl]], ln[member].sum(axis=0),
                                       rtol=1e-6, atol=1e-9)),
                      f'sum == summed log2(CPM+1) of the member cells '
                      f'(file: {tag})')
    left = os.listdir(os.path.join(root, 'scratch'))
    ctx.check(left == [], f'scratch directory empty afterwards: {left[:3]}')
    return 'ok'


HARNESSES = [
    Harness('abc_release_runner', h_abc_runner, setup=setup_abc,
            cases=[{}],
            funcs=['cli.precompute_stats_abc.PrecomputationABCRunner.run',
                   'create_dataset_to_output_map',
                   'TaxonomyTree.from_data_release',
                   'precompute_summary_stats_from_h5ad_list_and_tree',
                   'precompute_utils.merge_precompute_files'],
            stubs=['argschema parsing -> fully specified argument dict '
                   '(PrecomputationABCRunner.__new__)',
                   'multiprocessing -> scheduler model'],
            bounds='real release tables and one real h5ad file (12 cells, 3 '
                   'clusters, 2 datasets); cell labels as barcodes or as '
                   'digit strings; with / without a dataset column; '
                   'split_by_dataset on / off; 1-2 workers',
            expect_reach=['ran']),
    Harness('statistics_stage', h_stage, setup=RS.setup,
            cases=[{'cells': 2, 'genes': 1, 'clusters': 2},
                   {'cells': 2, 'genes': 1, 'clusters': 2, 'via_tree': True,
                    'max_proc': 2},
                   {'cells': 3, 'genes': 1, 'clusters': 2, 'max_proc': 2},
                   {'files': 2, 'cells': 2, 'genes': 1, 'clusters': 2,
                    'max_proc': 2},
                   {'files': 2, 'cells': 1, 'genes': 2, 'clusters': 1,
                    'max_proc': 1, 'perm_genes': True},
                   {'files': 2, 'cells': 1, 'genes': 1, 'clusters': 1,
                    'max_proc': 2, 'copy_data_over': True},
                   {'files': 2, 'cells': 1, 'genes': 1, 'clusters': 2,
                    'max_proc': 1, 'same_basename': True},
                   {'files': 2, 'cells': 1, 'genes': 1, 'clusters': 2,
                    'max_proc': 1, 'same_basename': True,
                    'copy_data_over': True},
                   {'cells': 2, 'genes': 2, 'clusters': 1,
                    'normalization': 'raw', 'max_proc': 2},
                   {'cells': 2, 'genes': 1, 'clusters': 2, 'enc': 'csr',
                    'max_proc': 2},
                   {'cells': 1, 'genes': 2, 'clusters': 1,
                    'normalization': 'raw', 'max_proc': 1,
                    'x_dtype': 'uint16'}],
            thorough_cases=[
                {'cells': 3, 'genes': 2, 'clusters': 2},
                {'cells': 4, 'genes': 1, 'clusters': 2, 'max_proc': 3},
                {'files': 2, 'cells': 2, 'genes': 1, 'clusters': 2},
                {'files': 2, 'cells': 3, 'genes': 1, 'clusters': 2,
                 'max_proc': 2},
                {'cells': 3, 'genes': 2, 'clusters': 2,
                 'normalization': 'raw', 'max_proc': 2},
                {'cells': 3, 'genes': 1, 'clusters': 3, 'enc': 'csr'},
                {'cells': 3, 'genes': 1, 'clusters': 2, 'enc': 'csc',
                 'max_proc': 2},
                {'files': 3, 'cells': 1, 'genes': 1, 'clusters': 2}],
            funcs=['precompute_from_anndata.precompute_summary_stats_from_'
                   'h5ad_and_lookup',
                   'precompute_summary_stats_from_h5ad_list_and_tree',
                   '_precompute_summary_stats_from_h5ad_and_lookup',
                   '_process_chunk_spec', '_process_chunk',
                   'stats_utils.summary_stats_for_chunk',
                   'precompute._create_empty_stats_file',
                   'AnnDataRowIterator.get_chunk',
                   'CellByGeneMatrix.to_log2CPM_in_place'],
            stubs=['h5py -> model', 'multiprocessing -> scheduler model '
                   '(every completion order within K)',
                   'read_df_from_h5ad -> obs / var names',
                   'log2 -> uninterpreted function (raw input)'],
            bounds='1-2 (3) files x 2-3 (4) cells x 1-2 genes, values '
                   'symbolic reals, each cell labelled with any of 1-3 '
                   'clusters or unlabelled (clusters of one cell, empty '
                   'clusters, cells of one cluster scattered over files '
                   'and chunks), rows_at_a_time symbolic in [1, cells+1], '
                   'n_processors symbolic in [1,3], dense / CSR / CSC',
            outside='coarsening and per-dataset merging (thorough tier '
                    'only when built); the scrattch / ABC CLI writers; '
                    'float summation order (sums compared as reals)',
            expect_reach=['written', 'gene tables differ'], selftest=6,
            split=64),
    Harness('truncate_to_coarser_hierarchy', h_truncate, setup=setup_trunc,
            cases=[{'sizes': [2, 3]}, {'sizes': [1, 2, 3]},
                   # dropping a leaf level that has as many nodes as the
                   # level above it
                   {'sizes': [2, 2]}, {'sizes': [1, 2, 2]}],
            thorough_cases=[{'sizes': [2, 3], 'genes': 2},
                            {'sizes': [2, 3, 3]},
                            {'sizes': [1, 2, 3]}, {'sizes': [2, 2, 3]},
                            {'sizes': [2, 3, 4]}],
            funcs=['truncate_precompute.truncate_precomputed_stats_file',
                   '_convert_to_new_leaves', 'TaxonomyTree.drop_level',
                   'drop_leaf_level', 'from_precomputed_stats'],
            stubs=['h5py -> model'],
            bounds='every onto tree of the listed sizes, every strict '
                   'sub-hierarchy, every row order of the old '
                   'cluster-to-row table, all six tables symbolic',
            expect_reach=['truncated'], selftest=6, split=48),
    Harness('merge_per_dataset_files', h_merge, setup=setup_trunc,
            cases=[{'files': 2, 'clusters': 2}, {'files': 3, 'clusters': 1}],
            thorough_cases=[{'files': 2, 'clusters': 2},
                            {'files': 3, 'clusters': 2}],
            funcs=['precompute_utils.merge_precompute_files',
                   'run_leaf_census', 'h5_utils.copy_h5_excluding_data',
                   '_copy_h5_element'],
            stubs=['h5py -> model'],
            bounds='2-3 per-dataset files, 1-2 clusters, all tables '
                   'symbolic (cell counts in [0,50]); ties accepted '
                   'either way',
            expect_reach=['merged'], selftest=6, split=32),
]
