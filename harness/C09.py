"""C09 — reference statistics equal direct computation and are additive.
Real functions: precompute_from_anndata.precompute_summary_stats_from_h5ad_
and_lookup / _precompute_summary_stats_from_h5ad_and_lookup /
_process_chunk_spec / _process_chunk, stats_utils.summary_stats_for_chunk,
precompute._create_empty_stats_file, AnnDataRowIterator.get_chunk,
CellByGeneMatrix.to_log2CPM_in_place."""
from symx import core
from harness.common import Harness, Env
from harness import refstats as RS


def h_stage(ctx, case):
    env = Env(ctx)
    inp = RS.build_inputs(ctx, case, env)
    res = RS.run_stage(ctx, case, env, inp)
    if res['raised'] is not None:
        ctx.exception(res['raised'])
        return 'EXC'
    ctx.reach('written')
    RS.check_stats(ctx, inp, res, env)
    import os
    left = [n for n in os.listdir(env.dir)
            if not n.endswith('.h5ad') and n != 'stats.h5']
    ctx.check(left == [], 'nothing left in the scratch directory')
    return 'ok'


HARNESSES = [
    Harness('statistics_stage', h_stage, setup=RS.setup,
            cases=[{'cells': 2, 'genes': 1, 'clusters': 2},
                   {'cells': 2, 'genes': 1, 'clusters': 2, 'via_tree': True,
                    'max_proc': 2},
                   {'cells': 3, 'genes': 1, 'clusters': 2, 'max_proc': 2},
                   {'files': 2, 'cells': 2, 'genes': 1, 'clusters': 2,
                    'max_proc': 2},
                   {'cells': 2, 'genes': 2, 'clusters': 1,
                    'normalization': 'raw', 'max_proc': 2},
                   {'cells': 2, 'genes': 1, 'clusters': 2, 'enc': 'csr',
                    'max_proc': 2}],
            thorough_cases=[
                {'cells': 3, 'genes': 2, 'clusters': 2},
                {'cells': 4, 'genes': 1, 'clusters': 2, 'max_proc': 3},
                {'files': 2, 'cells': 2, 'genes': 1, 'clusters': 2},
                {'files': 2, 'cells': 3, 'genes': 1, 'clusters': 2,
                 'max_proc': 2},
                {'cells': 3, 'genes': 2, 'clusters': 2,
                 'normalization': 'raw', 'max_proc': 2},
                {'cells': 3, 'genes': 1, 'clusters': 3, 'enc': 'csr'},
                {'cells': 3, 'genes': 1, 'clusters': 2, 'enc': 'csc',
                 'max_proc': 2},
                {'files': 3, 'cells': 1, 'genes': 1, 'clusters': 2}],
            funcs=['precompute_from_anndata.precompute_summary_stats_from_'
                   'h5ad_and_lookup',
                   'precompute_summary_stats_from_h5ad_list_and_tree',
                   '_precompute_summary_stats_from_h5ad_and_lookup',
                   '_process_chunk_spec', '_process_chunk',
                   'stats_utils.summary_stats_for_chunk',
                   'precompute._create_empty_stats_file',
                   'AnnDataRowIterator.get_chunk',
                   'CellByGeneMatrix.to_log2CPM_in_place'],
            stubs=['h5py -> model', 'multiprocessing -> scheduler model '
                   '(every completion order within K)',
                   'read_df_from_h5ad -> obs / var names',
                   'log2 -> uninterpreted function (raw input)'],
            bounds='1-2 (3) files x 2-3 (4) cells x 1-2 genes, values '
                   'symbolic reals, each cell labelled with any of 1-3 '
                   'clusters or unlabelled (clusters of one cell, empty '
                   'clusters, cells of one cluster scattered over files '
                   'and chunks), rows_at_a_time symbolic in [1, cells+1], '
                   'n_processors symbolic in [1,3], dense / CSR / CSC',
            outside='coarsening and per-dataset merging (thorough tier '
                    'only when built); the scrattch / ABC CLI writers; '
                    'float summation order (sums compared as reals)',
            expect_reach=['written'], selftest=6, split=64),
]
