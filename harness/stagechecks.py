"""Obligations evaluated on the files a mapping run leaves behind
(used by the stage-level harnesses of C14, C15, C17, C19, C20)."""
import csv
import io
import json
import os

import numpy as np

from symx import core, mpmodel
from harness import stage as ST
from harness.common import patch

import cell_type_mapper
import cell_type_mapper.cli.from_specified_markers as FSM
import cell_type_mapper.utils.output_utils as OU
from cell_type_mapper.taxonomy.taxonomy_tree import TaxonomyTree

STATE = {}


def inputs(case):
    """input files are built once per job"""
    key = json.dumps([case.get('names', True), case.get('hmap', False),
                      case.get('shared_label', False),
                      case.get('childless', False),
                      case.get('slash', False)])
    if STATE.get('key') != key:
        STATE['inp'] = ST.Inputs(with_names=case.get('names', True),
                                 hmap=case.get('hmap', False),
                                 shared_label=case.get('shared_label',
                                                       False),
                                 childless=case.get('childless', False),
                                 slash=case.get('slash', False))
        STATE['key'] = key
    return STATE['inp']


def setup(case, mode):
    ST.setup(case, mode)
    import cell_type_mapper.cli.cli_log as CL
    patch(CL, 'print', lambda *a, **k: None)
    import cell_type_mapper.file_tracker.file_tracker as FT
    patch(FT, 'print', lambda *a, **k: None)
    STATE.clear()


# ---------------------------------------------------------------- C15
def parse_csv(text):
    lines = text.splitlines()
    comments = [ln for ln in lines if ln.startswith('#')]
    body = [ln for ln in lines if not ln.startswith('#')]
    rows = list(csv.DictReader(io.StringIO('\n'.join(body))))
    return comments, rows


def _name_of(tree_dict, level, label, key):
    """readable name straight from the taxonomy's name table (the oracle
    does not go through TaxonomyTree.label_to_name)"""
    try:
        return tree_dict['name_mapper'][level][label][key]
    except (KeyError, TypeError):
        return label


def check_outputs_agree(ctx, cfg, res, stored_tree):
    """C15: JSON, CSV and HDF5 tell the same story"""
    js = res['json']
    stored_dict = json.loads(stored_tree.to_str())
    ok = js is not None and 'results' in js
    ctx.check(ok, 'a successful run writes its records to the JSON output')
    if not ok:
        return
    results = js['results']
    tree = TaxonomyTree(data=js['taxonomy_tree'])
    # --- embedded taxonomy == stored taxonomy without cell lists
    ctx.check(tree.is_equal_to(stored_tree) and
              all(tree.rows_for_leaf(lf) == [] for lf in tree.all_leaves)
              and tree.hierarchy == stored_tree.hierarchy,
              'embedded taxonomy reconstructs the stored taxonomy without '
              'its cell lists')
    # --- embedded marker table: a parent of the run's taxonomy with
    # fewer than two children uses (and reports) no markers
    mg = js.get('marker_genes') or {}
    run_tree = stored_tree
    if cfg.get('drop_level') in stored_tree.hierarchy:
        run_tree = run_tree.drop_level(cfg['drop_level'])
    if cfg.get('flatten'):
        run_tree = run_tree.flatten()
    for parent in run_tree.all_parents:
        if parent is None:
            continue
        if len(run_tree.children(parent[0], parent[1])) < 2:
            k = f'{parent[0]}/{parent[1]}'
            ctx.check(mg.get(k, []) == [], 'a parent with a single child '
                      'reports no marker genes')
    iters = cfg['type_assignment']['bootstrap_iteration']
    # --- CSV
    if cfg['csv_result_path'] is not None:
        ok = res['csv'] is not None
        ctx.check(ok, 'CSV written')
        if ok:
            comments, rows = parse_csv(res['csv'])
            ctx.check(any(os.path.basename(cfg['extended_result_path'])
                          in c for c in comments)
                      and any(json.dumps(stored_tree.hierarchy) in c
                              for c in comments)
                      and any(cell_type_mapper.__version__ in c
                              for c in comments),
                      'comment lines name the JSON file, the hierarchy and '
                      'the software version')
            ctx.check([r['cell_id'] for r in rows]
                      == [c['cell_id'] for c in results],
                      'CSV has one row per cell in query order')
            conf = 'avg_correlation' if iters == 1 \
                else 'bootstrapping_probability'
            clabel = 'correlation_coefficient' if iters == 1 \
                else 'bootstrapping_probability'
            want_cols = ['cell_id']
            for lv0 in stored_tree.hierarchy:
                lv = stored_tree.level_to_name(lv0)
                want_cols += [f'{lv}_label', f'{lv}_name']
                if lv0 == stored_tree.leaf_level:
                    want_cols.append(f'{lv}_alias')
                want_cols.append(f'{lv}_{clabel}')
            ctx.check(rows == [] or sorted(rows[0].keys())
                      == sorted(want_cols),
                      'CSV columns: cell id, and label / name (/ alias at '
                      'the leaf level) / confidence per level - nothing '
                      'else')
            for r, c in zip(rows, results):
                for lv0 in stored_tree.hierarchy:
                    a = c[lv0]['assignment']
                    lv = stored_tree.level_to_name(lv0)
                    ctx.check(r.get(f'{lv}_label') == a,
                              'label column == JSON assignment')
                    ctx.check(r.get(f'{lv}_name') == str(
                        _name_of(stored_dict, lv0, a, 'name')),
                        'name column == assignment through the name table')
                    if lv0 == stored_tree.leaf_level:
                        ctx.check(r.get(f'{lv}_alias') == str(
                            _name_of(stored_dict, lv0, a, 'alias')),
                            'alias column == assignment through the alias '
                            'table')
                    v = r.get(f'{lv}_{clabel}')
                    ctx.check(v is not None and
                              v == ('%.4f' % c[lv0][conf]),
                              'confidence column == JSON value to four '
                              'decimals (probability, or correlation for a '
                              'single iteration)')
    # --- HDF5 round trip
    if res['h5'] is not None:
        blob = OU.hdf5_to_blob(res['h5'])
        hr = blob.get('results')
        ok = hr is not None and len(hr) == len(results)
        ctx.check(ok, 'HDF5 holds one record per cell')
        if ok:
            for a, b in zip(hr, results):
                ctx.check(a['cell_id'] == b['cell_id'], 'HDF5 cell id')
                for lv in stored_tree.hierarchy:
                    x, y = a[lv], b[lv]
                    ctx.check(x['assignment'] == y['assignment'],
                              'HDF5 assignment')
                    for k in ('bootstrapping_probability',
                              'avg_correlation', 'aggregate_probability'):
                        ctx.check(abs(float(x[k]) - float(y[k])) < 1e-12,
                                  f'HDF5 {k}')
                    ctx.check(bool(x['directly_assigned'])
                              == bool(y['directly_assigned']),
                              'HDF5 directly_assigned flag')
                    ctx.check({k for k in x if k.startswith('runner_up')}
                              == {k for k in y
                                  if k.startswith('runner_up')},
                              'HDF5 record has the same runner-up fields '
                              'as the JSON record')
                    ya = y.get('runner_up_assignment', [])
                    xa = x.get('runner_up_assignment', [])
                    ctx.check(list(xa) == list(ya),
                              'HDF5 runner-up assignments')
                    for k in ('runner_up_probability',
                              'runner_up_correlation'):
                        xv, yv = x.get(k, []), y.get(k, [])
                        ctx.check(len(xv) == len(yv) and all(
                            abs(float(p) - float(q)) < 1e-12
                            for p, q in zip(xv, yv)), f'HDF5 {k}')
        for k in ('config', 'log', 'marker_genes', 'taxonomy_tree'):
            ctx.check(blob.get(k) == js.get(k), f'HDF5 metadata {k} == JSON')


# ---------------------------------------------------------------- C14
def check_failed_run(ctx, cfg, res):
    js = res['json']
    ctx.check(res['raised'] is not None, 'the run raises')
    ctx.check(js is not None and 'results' not in js,
              'no result records after a failed worker')
    ctx.check(res['csv'] is None, 'no CSV after a failed worker')
    ok = res['log'] is not None
    ctx.check(ok, 'the log file is still written')
    if ok:
        ctx.check('RAN SUCCESSFULLY' not in res['log'],
                  'no success message in the log file')
    if js is not None:
        ctx.check(not any('RAN SUCCESSFULLY' in ln for ln in js.get('log',
                                                                    [])),
                  'no success message in the JSON log')
        ctx.check('config' in js and 'log' in js,
                  'config and log are recorded even for a failed run')
    if res['h5'] is not None:
        blob = OU.hdf5_to_blob(res['h5'])
        ctx.check('results' not in blob,
                  'HDF5 output holds metadata only after a failed run')


# ---------------------------------------------------------------- C19
def _pat(names):
    """directory / file names reduced to their pattern (random and
    time-stamp parts taken out) so that labels are the same on every run"""
    import re
    out = []
    for n in names:
        n = re.sub(r'\d{14}', '<time>', n)
        n = re.sub(r'_[A-Za-z0-9_]{8}(?=$|/|\.)', '_<random>', n)
        out.append(n)
    return sorted(set(out))[:4]


def check_clean(ctx, inp, cfg, work, before, res, planted=(),
                sentinels=()):
    gone = [p for p, content in sentinels
            if not os.path.exists(p) or open(p).read() != content]
    ctx.check(gone == [], 'a run neither removes nor changes files it did '
              f'not create (another run\'s scratch); touched={gone[:3]}')
    after = inp.digests()
    changed = [k for k in before if before[k] != after.get(k)]
    allowed = []
    if cfg['obsm_key']:
        allowed.append(os.path.basename(cfg['query_path']))
    ctx.check([c for c in changed if c not in allowed] == []
              and sorted(after) == sorted(before),
              'input files are not modified (the query only when storing '
              f'results in it is requested); changed={changed}')
    left = [x for x in ST.listing(work['scratch']) if x not in planted]
    ctx.check(left == [], 'nothing left in the scratch directory after '
              f'the run returned; left={_pat(left)}')
    wanted = {os.path.basename(p) for p in (
        cfg['csv_result_path'], cfg['extended_result_path'],
        cfg['log_path'], cfg['hdf5_result_path']) if p}
    extra = [x for x in ST.listing(work['out'])
             if x not in wanted and x not in planted]
    ctx.check(extra == [], 'files are created only at the requested '
              f'output locations; extra={_pat(extra)}')


# ---------------------------------------------------------------- C20
def leaks(obj, needles):
    """strings inside obj that contain one of the needles"""
    out = []

    def rec(x):
        if isinstance(x, str):
            for n in needles:
                if n in x:
                    out.append(x[:200])
                    break
        elif isinstance(x, dict):
            for k, v in x.items():
                rec(k)
                rec(v)
        elif isinstance(x, (list, tuple)):
            for v in x:
                rec(v)
    rec(obj)
    return out


def _stable(lk, needles):
    """leaked strings with the per-run directory names taken out (labels
    must not differ from run to run)"""
    import re
    out = []
    for x in lk[:2]:
        x = re.sub(re.escape(needles[0]) + r'/run\d+\w*', '<host dir>', x)
        x = re.sub(r'\d+\.\d+e[+-]\d+', '<t>', x)
        out.append(x.replace(needles[0], '<host dir>')[:160])
    return out


def check_cloud_safe(ctx, cfg, res, needles):
    js = res['json']
    if js is not None:
        lk = leaks(js.get('config'), needles)
        ctx.check(lk == [], f'no absolute host path in the recorded '
                  f'configuration; leaked={_stable(lk, needles)}')
        lk = leaks(js.get('log'), needles)
        ctx.check(lk == [], f'no absolute host path in the recorded log; '
                  f'leaked={_stable(lk, needles)}')
        ctx.check('tmp_dir' not in js.get('config', {}) and
                  'extended_result_dir' not in js.get('config', {}),
                  'scratch / output directory keys are removed')
    if res['log'] is not None:
        lk = leaks(res['log'].splitlines(), needles)
        ctx.check(lk == [], f'no absolute host path in the log file; '
                  f'leaked={_stable(lk, needles)}')
    if res['h5'] is not None:
        blob = OU.hdf5_to_blob(res['h5'])
        lk = leaks({'c': blob.get('config'), 'l': blob.get('log')}, needles)
        ctx.check(lk == [], f'no absolute host path in the HDF5 metadata; '
                  f'leaked={_stable(lk, needles)}')


# ---------------------------------------------------------------- faults
ENV_POINTS = ['FileTracker.add_file', 'create_marker_cache',
              'run_type_assignment', 'serialize_markers', 'blob_to_csv']


class Injected(RuntimeError):
    pass


def install_env_fault(ctx, which, when):
    """make the `which`-th environment step of _run_mapping raise, before
    or after doing its work"""
    import cell_type_mapper.file_tracker.file_tracker as FT
    name = ENV_POINTS[which]

    def wrap(real):
        def f(*a, **k):
            if when == 'before':
                raise Injected(f'injected failure before {name}')
            r = real(*a, **k)
            raise Injected(f'injected failure after {name}')
        return f
    if name == 'FileTracker.add_file':
        real = FT.FileTracker.add_file
        state = {'n': 0}

        def add_file(self, *a, **k):
            state['n'] += 1
            if state['n'] == 2:
                return wrap(lambda *x, **y: real(self, *x, **y))(*a, **k)
            return real(self, *a, **k)
        patch(FT.FileTracker, 'add_file', add_file)
        return lambda: setattr(FT.FileTracker, 'add_file', real)
    attr = {'create_marker_cache':
            'create_marker_cache_from_specified_markers',
            'run_type_assignment': 'run_type_assignment_on_h5ad',
            'serialize_markers': 'serialize_markers',
            'blob_to_csv': 'blob_to_csv'}[name]
    real = getattr(FSM, attr)
    setattr(FSM, attr, wrap(real))
    return lambda: setattr(FSM, attr, real)
