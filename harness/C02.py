"""C02 — assignments are the plurality of bootstrapped nearest-centroid
votes.  Real functions executed: election.choose_node, aggregate_votes,
tally_votes, distance_utils.correlation_nearest_neighbors (+ kernels),
cell_by_gene.CellByGeneMatrix, utils.convert_to_cpm."""
import numpy as np

from symx import core
from symx.core import And, Or, Not, Implies, Sum
from harness.common import (Harness, patch, install_np, shimmed, arr, reals,
                            ints, set_mode, canonical_maps)

import cell_type_mapper.type_assignment.election as el
import cell_type_mapper.utils.distance_utils as du
import cell_type_mapper.utils.utils as uu
import cell_type_mapper.cell_by_gene.cell_by_gene as cbg
import cell_type_mapper.cell_by_gene.utils as cbgu

CHILD_NAMES = ['kB', 'kA', 'kD', 'kC']     # deliberately unsorted


# ----------------------------------------------------------- choose_node
def setup_choose(case, mode):
    set_mode(mode)
    if shimmed(mode):
        install_np(el)


def h_choose(ctx, case):
    """real choose_node + aggregate_votes on arbitrary vote tallies"""
    nl, owner = case['leaves'], case['owner']
    ncell = case.get('cells', 1)
    IT = ctx.int('iterations', 1, 1000000)
    nas = ctx.int('n_assignments', 1, 5)
    v = ints(ctx, 'votes', (ncell, nl), 0, None)
    c = reals(ctx, 'corr', (ncell, nl))
    for i in range(ncell):
        ctx.assume(ctx.eq(Sum(v[i, :]), IT))
        for j in range(nl):
            # tally_votes never adds a correlation without a vote
            ctx.assume(Implies(v[i, j] == 0, c[i, j] == 0))
    votes, corr = arr(ctx, v, int), arr(ctx, c, float)
    patch(el, 'tally_votes', lambda **k: (votes, corr))
    types = [CHILD_NAMES[o] for o in owner]
    try:
        res, prob, avg, ru = el.choose_node(
            None, None, types, 0.5, IT, None, n_assignments=nas)
    except Exception as e:
        ctx.exception(e)
        return 'EXC'
    ctx.reach('returned')
    kids = sorted(set(types))
    for i in range(ncell):
        agg = {k: Sum([v[i, j] for j in range(nl) if types[j] == k])
               for k in kids}
        cs = {k: Sum([c[i, j] for j in range(nl) if types[j] == k])
              for k in kids}
        w = str(res[i])
        ctx.check(w in kids, 'winner is a child of the node')
        ctx.check(And(*[agg[w] >= agg[k] for k in kids]),
                  'winner has the most (aggregated) votes')
        ctx.check(ctx.eq(prob[i] * IT, agg[w]),
                  'probability * iterations == votes of the winner')
        ctx.check(ctx.eq(avg[i] * agg[w], cs[w]),
                  'avg correlation * votes == correlation sum of winner')
        exp_len = min(int(nas), len(kids)) - 1
        ctx.check(len(ru[i]) == exp_len,
                  'runner-up tuple count == min(n_assignments, '
                  'children) - 1')
        names = [str(t[0]) for t in ru[i]]
        ctx.check(len(set(names)) == len(names) and w not in names
                  and all(n in kids for n in names),
                  'runners-up are distinct siblings of the winner')
        prev = agg[w]
        for (nm, flag, ac, fr) in ru[i]:
            nm = str(nm)
            ctx.check(ctx.eq(fr * IT, agg[nm]),
                      'runner-up probability * iterations == its votes')
            ctx.check(agg[nm] <= prev, 'runner-up votes non-increasing')
            if ctx.mode == 'sym':
                ctx.check(core.SBool(core.bexpr(flag)
                                     == core.bexpr(agg[nm] > 0)),
                          'runner-up validity flag <=> votes > 0')
            else:
                ctx.check(bool(flag) == bool(agg[nm] > 0),
                          'runner-up validity flag <=> votes > 0')
            ctx.check(Implies(agg[nm] > 0, ctx.eq(ac * agg[nm], cs[nm])),
                      'runner-up avg correlation * votes == its sum')
            prev = agg[nm]
        # nobody left out has more votes than the last one listed
        for k in kids:
            if k != w and k not in names:
                ctx.check(agg[k] <= prev,
                          'omitted child has no more votes than listed')
    return 'ok'


def choose_cases(max_leaves, max_kids, cells=1):
    out = []
    for nl in range(1, max_leaves + 1):
        for m in canonical_maps(nl, min(nl, max_kids)):
            # canonical: first occurrence order
            seen = []
            for x in m:
                if x not in seen:
                    seen.append(x)
            if seen != sorted(seen) or (seen and seen[0] != 0):
                continue
            if seen != list(range(len(seen))):
                continue
            out.append({'leaves': nl, 'owner': list(m), 'cells': cells})
    return out


# ----------------------------------------------------------- tally_votes
class NNStub:
    """stands in for correlation_nearest_neighbors: arbitrary neighbour
    and arbitrary correlation per cell and iteration; records what it was
    given"""

    def __init__(self, ctx, n_ref, plain=False):
        self.ctx, self.n_ref, self.calls = ctx, n_ref, []
        self.plain = plain

    def __call__(self, baseline_array, query_array, **k):
        it = len(self.calls)
        nq = query_array.shape[0]
        if self.plain:
            # long runs (vote-counter width): no fresh symbols per
            # iteration, the single reference row gets every vote
            nb, cr = [0] * nq, [0.5] * nq
            self.calls.append((baseline_array, query_array, nb, cr))
            return arr(self.ctx, nb, int), arr(self.ctx, cr, float)
        nb = [self.ctx.int(f"nn[{it},{i}]", 0, self.n_ref - 1)
              for i in range(nq)]
        cr = [self.ctx.real(f"nc[{it},{i}]", -1, 1) for i in range(nq)]
        self.calls.append((baseline_array, query_array, nb, cr))
        return arr(self.ctx, nb, int), arr(self.ctx, cr, float)


class ListRng:
    """concrete-mode generator that returns the subsets recorded in the
    witness (the contract of Generator.choice(replace=False): a
    duplicate-free sample)"""

    def __init__(self, ctx, tag='rng0'):
        self.ctx, self.tag, self.choices = ctx, tag, []

    def choice(self, a, size=None, replace=True, **k):
        assert replace is False
        rest = list(np.asarray(a))
        if int(size) > len(rest):
            raise ValueError('Cannot take a larger sample than population')
        out = []
        t = f"{self.tag}.choice{len(self.choices)}"
        for i in range(int(size)):
            out.append(rest.pop(self.ctx.choice(f"{t}.{i}", len(rest))))
        self.choices.append(out)
        return np.array(out, dtype=np.int64)


def setup_tally(case, mode):
    set_mode(mode)
    if shimmed(mode):
        install_np(el)


def h_tally(ctx, case):
    nm, nq, nr, iters = (case['markers'], case['cells'], case['refs'],
                         case['iterations'])
    f = ctx.real('factor', 0, 1, lo_strict=True)
    q = reals(ctx, 'q', (nq, nm))
    r = reals(ctx, 'r', (nr, nm))
    Q, R = arr(ctx, q), arr(ctx, r)
    stub = NNStub(ctx, nr, plain=(iters > 300))
    patch(el.distance_utils, 'correlation_nearest_neighbors', stub)
    if ctx.mode == 'sym':
        from symx.npshim import RngModel, RANGE_CHECK
        rng = RngModel(tag='rng0')
        RANGE_CHECK['on'] = True      # no wrap-around of the vote counter
    else:
        rng = ListRng(ctx)
    try:
        votes, csum = el.tally_votes(Q, R, f, iters, rng)
    except Exception as e:
        ctx.exception(e)
        return 'EXC'
    ctx.reach('returned')
    ctx.check(len(stub.calls) == iters, 'one kernel call per iteration')
    if iters > 300:
        # long run: only the vote counter is of interest
        ctx.check(ctx.eq(votes[0, 0], iters),
                  'the vote counter holds the full count')
        return 'ok'
    for it, (B, Qs, nb, cr) in enumerate(stub.calls):
        S = list(rng.choices[it])
        n = len(S)
        ctx.check(len(set(S)) == n and all(0 <= s < nm for s in S),
                  'subset is duplicate-free and within the marker set')
        # size == max(1, round_half_even(f*n_markers))
        fn = f * nm
        if ctx.mode == 'sym':
            # n == max(1, round_half_even(f*n_markers))
            inside = And(fn > n - 0.5, fn < n + 0.5)
            half = Or(ctx.eq(fn, n - 0.5), ctx.eq(fn, n + 0.5))
            ctx.check(Or(inside, And(half, n % 2 == 0),
                         And(n == 1, fn <= 0.5)),
                      'subset size == max(1, round-half-even(factor*n))')
        else:
            ctx.check(n == max(1, int(np.round(fn))),
                      'subset size == max(1, round-half-even(factor*n))')
        cols = sorted(S)
        ok = B.shape == (nr, n) and Qs.shape == (nq, n)
        if ok:
            for jj, col in enumerate(cols):
                for i in range(nq):
                    ok = ok and _same(ctx, Qs[i, jj], q[i, col])
                for i in range(nr):
                    ok = ok and _same(ctx, B[i, jj], r[i, col])
        ctx.check(ok, 'kernel receives exactly columns S of the query and '
                  'the same columns S of the reference')
    for i in range(nq):
        for l_ in range(nr):
            nv = Sum([_ind(ctx, stub.calls[it][2][i], l_)
                      for it in range(iters)])
            sc = Sum([_ind(ctx, stub.calls[it][2][i], l_)
                      * stub.calls[it][3][i] for it in range(iters)])
            ctx.check(ctx.eq(votes[i, l_], nv),
                      'votes[c,l] == #iterations whose neighbour was l')
            ctx.check(ctx.eq(csum[i, l_], sc),
                      'corr_sum[c,l] == sum of their correlations')
    return 'ok'


def _same(ctx, a, b):
    if ctx.mode == 'sym':
        return core.same_term(a, b)
    return a == b


def _ind(ctx, x, val):
    """1 if x == val else 0"""
    if core.is_sym(x):
        import z3
        return core.SInt(z3.If(x.e == val, z3.IntVal(1), z3.IntVal(0)))
    return 1 if x == val else 0


# ----------------------------------------------------- correlation kernel
def setup_corr(case, mode):
    set_mode(mode)
    if shimmed(mode):
        install_np(du)


def h_corr(ctx, case):
    """_correlation_nearest_neighbors_cpu / correlation_dot: Pearson
    identity, range, constant rows, arg-max"""
    nq, nr, ng = case['cells'], case['refs'], case['genes']
    q = reals(ctx, 'q', (nq, ng), -8, 8)
    r = reals(ctx, 'r', (nr, ng), -8, 8)
    try:
        corr = du.correlation_dot(arr(ctx, r), arr(ctx, q))
        idx, val = du.correlation_nearest_neighbors(
            baseline_array=arr(ctx, r), query_array=arr(ctx, q),
            return_correlation=True)
    except Exception as e:
        ctx.exception(e)
        return 'EXC'
    ctx.reach('returned')
    ctx.check(corr.shape == (nr, nq), 'shape (n_reference, n_query)')

    def stats(row):
        m = Sum(list(row)) / ng
        d = [x - m for x in row]
        sq = Sum([x * x for x in d])
        if ctx.mode == 'sym':
            n = ctx.sqrt(core._toreal(core.term(sq)))
        else:
            n = float(np.sqrt(sq))
        return d, sq, n
    rstats = [stats(r[i]) for i in range(nr)]
    for j in range(nq):
        dq, sq, nqv = stats(q[j])
        for i in range(nr):
            dr, sr, nrv = rstats[i]
            cov = Sum([a * b for a, b in zip(dq, dr)])
            cij = corr[i, j]
            ctx.check(Implies(Or(sq == 0, sr == 0), ctx.eq(cij, 0)),
                      'constant row => correlation 0 (not NaN)')
            # Pearson identity, division-free: c*|q|*|r| == cov
            ctx.check(Implies(And(sq > 0, sr > 0),
                              ctx.eq(cij * nqv * nrv, cov)),
                      'entry is the Pearson correlation')
            ctx.check(And(cij >= -1, cij <= 1) if ctx.mode == 'sym'
                      else (-1 - 1e-9 <= cij <= 1 + 1e-9),
                      'correlation within [-1, 1]')
        k = int(idx[j])
        ctx.check(And(*[corr[k, j] >= corr[i, j] for i in range(nr)]),
                  'returned neighbour attains the column maximum')
        ctx.check(ctx.eq(val[j], corr[k, j]),
                  'returned value is that maximum')
    return 'ok'


# ----------------------------------------------------- normalisation order
def setup_norm(case, mode):
    set_mode(mode)
    if shimmed(mode):
        install_np(cbg, cbgu)


def h_norm(ctx, case):
    """to_log2CPM_in_place: per-row CPM then log2(1+x); refuses a matrix
    already down-selected by gene; down-selection keeps named columns"""
    nc, ng = case['cells'], case['genes']
    x = reals(ctx, 'x', (nc, ng), 0, None)
    genes = [f"g{i}" for i in range(ng)]
    keep = [genes[i] for i in ctx.subset('keep', ng)]
    if not keep:
        raise core.PathAbort('empty marker set')
    m = cbg.CellByGeneMatrix(arr(ctx, x), list(genes), 'raw')
    order = ctx.flag('downsample_first')
    if order:
        m.downsample_genes_in_place(keep)
        try:
            m.to_log2CPM_in_place()
        except RuntimeError:
            ctx.reach('refused')
            return 'refused'
        ctx.check(False, 'normalising after gene down-selection is refused')
        return 'accepted'
    try:
        m.to_log2CPM_in_place()
        m.downsample_genes_in_place(keep)
    except Exception as e:
        ctx.exception(e)
        return 'EXC'
    ctx.reach('normalised')
    ctx.check(m.gene_identifiers == keep, 'gene names follow the request')
    for i in range(nc):
        tot = Sum(list(x[i]))
        for jj, g in enumerate(keep):
            j = genes.index(g)
            got = m.data[i, jj]
            if ctx.mode == 'sym':
                # got == log2(1 + cpm) with cpm*tot == 1e6*x  (tot>0)
                import z3
                f = ctx._ufn.get('log2')
                ok = False
                if f is not None and core.is_sym(got) \
                        and z3.is_app(got.e) and got.e.decl().eq(f):
                    inner = got.e.arg(0)
                    ok = ctx.check(Implies(
                        tot > 0, core.SBool((inner - 1) * core.term(tot)
                                            == 1000000 * core.term(x[i, j]))),
                        'value == log2(1 + 1e6*x/rowsum) of the full row')
                else:
                    # all-zero row: numpy leaves zeros; log2(1+0)
                    ok = ctx.check(Implies(tot > 0, False),
                                   'value == log2(1 + 1e6*x/rowsum)')
            else:
                if tot > 0:
                    ctx.check(ctx.eq(got, np.log2(1 + 1e6 * x[i, j] / tot)),
                              'value == log2(1 + 1e6*x/rowsum) of the '
                              'full row')
    return 'ok'


HARNESSES = [
    Harness('choose_node', h_choose, setup=setup_choose,
            cases=choose_cases(4, 3), thorough_cases=choose_cases(5, 4)
            + choose_cases(3, 3, cells=2),
            funcs=['election.choose_node', 'election.aggregate_votes'],
            stubs=['election.tally_votes -> arbitrary vote / correlation '
                   'tallies (non-negative ints summing to the iteration '
                   'count; no correlation without a vote)'],
            bounds='leaves<=4 (thorough 5), children<=3 (4), iterations '
                   'symbolic in [1,1e6], n_assignments symbolic in [1,5], '
                   'all leaf->child ownership maps',
            outside='float rounding near vote ties; GPU path',
            expect_reach=['returned'], selftest=40),
    Harness('tally_votes', h_tally, setup=setup_tally,
            cases=[{'markers': m, 'cells': c, 'refs': r, 'iterations': it}
                   for (m, c, r, it) in
                   [(1, 1, 2, 2), (2, 1, 2, 2), (3, 1, 2, 2), (3, 2, 3, 1),
                    (4, 1, 2, 1), (1, 1, 1, 255), (1, 1, 1, 256),
                    (1, 1, 1, 300)]],
            thorough_cases=[{'markers': m, 'cells': c, 'refs': r,
                             'iterations': it}
                            for (m, c, r, it) in
                            [(1, 1, 2, 3), (2, 2, 3, 2), (3, 1, 3, 3),
                             (4, 1, 2, 2), (5, 1, 2, 1), (4, 2, 3, 2),
                             (1, 1, 1, 255), (1, 1, 1, 256), (1, 1, 1, 257),
                             (1, 1, 1, 65535), (1, 1, 1, 65536)]],
            funcs=['election.tally_votes'],
            stubs=['rng.choice(replace=False) -> symbolic duplicate-free '
                   'ordered sample (numpy contract)',
                   'distance_utils.correlation_nearest_neighbors -> '
                   'arbitrary neighbour index and correlation in [-1,1]; '
                   'records its arguments'],
            bounds='markers<=4 (5), cells<=2, reference rows<=3, '
                   'iterations<=2 (3) plus 255/256/300 (thorough 257, 65535, 65536) with one marker and one reference row (vote counter must not wrap), bootstrap factor symbolic real in '
                   '(0,1], every drawn subset',
            outside='torch path; iteration counts other than the listed '
                    'ones around the uint8/uint16 boundaries for the '
                    'no-wrap-around obligation',
            expect_reach=['returned'], selftest=20, split=32),
    Harness('correlation_kernel', h_corr, setup=setup_corr,
            cases=[{'cells': 1, 'refs': 2, 'genes': 2},
                   {'cells': 1, 'refs': 2, 'genes': 3},
                   {'cells': 2, 'refs': 1, 'genes': 3}],
            thorough_cases=[{'cells': 1, 'refs': 2, 'genes': 3},
                            {'cells': 2, 'refs': 2, 'genes': 2},
                            {'cells': 2, 'refs': 1, 'genes': 3},
                            {'cells': 1, 'refs': 3, 'genes': 2}],
            funcs=['distance_utils.correlation_nearest_neighbors',
                   '_correlation_nearest_neighbors_cpu', 'correlation_dot',
                   '_correlation_dot_cpu',
                   '_subtract_mean_and_normalize_cpu'],
            stubs=['sqrt -> fresh s>=0 with s*s==x (exact real)'],
            bounds='<=2 query rows x <=2 (3) reference rows x <=3 genes '
                   '(3 reference rows only with 2 genes; 4 genes and 3x3 '
                   'exceeded the NRA budget: z3 unknown), entries symbolic '
                   'reals in [-8,8]',
            outside='floating-point rounding (reals); NaN/inf inputs',
            expect_reach=['returned'], selftest=30,
            query_timeout_ms=60000),
    Harness('normalise_before_downselect', h_norm, setup=setup_norm,
            cases=[{'cells': 1, 'genes': 2}, {'cells': 2, 'genes': 3}],
            funcs=['CellByGeneMatrix.to_log2CPM_in_place',
                   'downsample_genes_in_place', 'utils.convert_to_cpm'],
            stubs=['log2 -> uninterpreted function'],
            bounds='<=2 cells x <=3 genes, counts symbolic reals >= 0, '
                   'every non-empty marker subset, both orders',
            outside='rows summing to zero are left as they are by numpy '
                    '(0/0 handled with where=); nonfinite values',
            expect_reach=['refused', 'normalised'], selftest=20),
]
