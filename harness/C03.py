"""C03 — confidence fields obey the documented arithmetic contract.
Real functions: election.run_type_assignment, _run_type_assignment,
choose_node, aggregate_votes; TaxonomyTree (children, nodes_at_level,
backfill_assignments)."""
from symx import core
from harness.common import Harness
from harness import levelloop as LL


def classify(f, case):
    if 'KeyError' in str(f.get('exc')) + f['label'] and \
            case['sizes'][0] == 1:
        return 'F1:single-top-level-node:KeyError(None)-in-avg_correlation-backfill'
    return None


def h_levels(ctx, case, confidence=True):
    levels, names, parents, data = LL.build_tree(ctx, case)
    tree, err = LL.validator_accepts(data)
    if tree is None:
        ctx.exception(err, 'validator rejected a strict tree')
        return 'rejected'
    ncell = case.get('cells', 1)
    IT = ctx.int('iterations', 1, 1000000)
    nas = ctx.choice('n_assignments-1', case.get('max_nas', 3)) + 1
    try:
        oracle, result = LL.run_levels(ctx, case, tree, levels, names,
                                       parents, ncell, nas, IT)
    except Exception as e:
        ctx.note('top_level_nodes', case['sizes'][0])
        ctx.exception(e)
        return 'EXC ' + type(e).__name__
    ctx.reach('mapped')
    LL.check_records(ctx, oracle, result, levels, levels, names, parents,
                     list(range(ncell)), nas, IT, confidence=confidence)
    return 'ok'


def h_backfill(ctx, case):
    """inferred levels repeat the numbers of the voted descendant, carry
    no runner_up_* keys and are flagged not directly assigned"""
    levels, names, parents, data = LL.build_tree(ctx, case)
    tree, err = LL.validator_accepts(data)
    if tree is None:
        raise core.PathAbort('invalid')
    which = ctx.choice('reduction', len(levels))   # 0 = flatten, k = drop k-1
    if which == 0:
        red = tree.flatten()
        kept = [levels[-1]]
    else:
        lv = levels[which - 1]
        red = tree.drop_level(lv)
        kept = [x for x in levels if x != lv]
    IT = ctx.int('iterations', 1, 1000000)
    nas = ctx.choice('n_assignments-1', 3) + 1
    try:
        oracle, result = LL.run_levels(ctx, case, red, levels, names,
                                       parents, case.get('cells', 1), nas, IT)
    except Exception as e:
        ctx.exception(e)
        return 'EXC ' + type(e).__name__
    import copy
    # the runner marks every voted level before the back-fill
    # (election_runner.run_type_assignment_on_h5ad)
    for cell in result:
        for lv in kept:
            cell[lv]['directly_assigned'] = True
    before = copy.deepcopy(result)
    out = tree.backfill_assignments(result)
    ctx.reach('backfilled')
    for cell, b in zip(out, before):
        for li, lv in enumerate(levels):
            ctx.check(lv in cell, 'every level of the stored tree present')
            if lv in kept:
                ctx.check(cell[lv].get('directly_assigned') is True,
                          'voted level stays flagged as directly assigned')
                ctx.check(cell[lv] is b[lv] or cell[lv] == b[lv]
                          if ctx.mode != 'sym' else True,
                          'voted levels untouched')
                continue
            # nearest kept level below
            below = [x for x in levels[li + 1:] if x in kept][0]
            src = b[below]
            rec = cell[lv]
            anc, l2 = str(src['assignment']), levels.index(below)
            while l2 > li:
                anc = oracle.parent_of(l2, anc)
                l2 -= 1
            ctx.check(str(rec['assignment']) == anc,
                      'inferred level is the ancestor of the voted node')
            ctx.check(rec.get('directly_assigned') is False,
                      'inferred level flagged as not directly assigned')
            ctx.check(not any(k.startswith('runner_up') for k in rec),
                      'inferred level has no runner_up_* fields')
            for k in ('bootstrapping_probability', 'avg_correlation',
                      'aggregate_probability'):
                ctx.check(ctx.eq(rec[k], src[k]),
                          f'inferred level repeats {k} of the voted '
                          'descendant')
    return 'ok'


def tree_cases(max_levels, total):
    out = []
    import itertools
    for nl in range(1, max_levels + 1):
        for sizes in itertools.product(range(1, 5), repeat=nl):
            if list(sizes) != sorted(sizes):
                continue        # a level cannot have fewer nodes than its parent level... (it can, with childless nodes)
            if sum(sizes) <= total:
                out.append({'sizes': list(sizes)})
    return out


QUICK = [{'sizes': s} for s in ([1], [2], [3], [1, 2], [2, 2], [2, 3],
                                [1, 1, 2], [1, 2, 3], [2, 2, 3], [2, 1],
                                [1, 1, 1], [1, 3])] \
    + [{'sizes': [2, 3], 'alias': True}, {'sizes': [2, 2, 2], 'alias': True,
                                         'max_nas': 1}]
THOROUGH = QUICK + [{'sizes': s} for s in ([2, 3, 4], [2, 2, 4], [3, 4],
                                          [1, 2, 2, 3], [2, 2, 2, 3],
                                          [2, 4], [4], [3, 2], [2, 3, 3],
                                          [2, 2, 2], [3, 3])] \
    + [{'sizes': [2, 3], 'cells': 2}, {'sizes': [2, 2, 3], 'cells': 2}]

FUNCS = ['election.run_type_assignment', 'election._run_type_assignment',
         'election.choose_node', 'election.aggregate_votes',
         'TaxonomyTree.__init__/children/nodes_at_level',
         'CellByGeneMatrix.downsample_cells']
STUBS = ['matching.assemble_query_data -> leaves under the parent and their '
         'owning children computed by the harness from its own '
         'child->parent map (the real function is checked in C02/C08)',
         'election.tally_votes -> arbitrary non-negative integer votes '
         'summing to the iteration count and correlation sums with '
         '|sum| <= votes, per (cell, parent, leaf)']
ASSUME = ['each bootstrap iteration casts exactly one vote with a '
          'correlation in [-1,1] (discharged for the kernel in C02)']

from harness import C02 as _C02  # noqa: E402

HARNESSES = [
    Harness('vote_counter_no_wrap', _C02.h_tally, setup=_C02.setup_tally,
            cases=[{'markers': 1, 'cells': 1, 'refs': 1, 'iterations': n}
                   for n in (255, 256, 300)],
            thorough_cases=[{'markers': 1, 'cells': 1, 'refs': 1,
                             'iterations': n}
                            for n in (255, 256, 257, 65535, 65536)],
            funcs=['election.tally_votes', 'utils.choose_int_dtype'],
            stubs=['rng / nearest-neighbour kernel -> see C02 tally_votes'],
            bounds='iteration counts around the uint8 / uint16 boundaries, '
                   'one marker, one reference row: every store into the '
                   'vote counter must fit its integer type (probability '
                   'is a whole number of votes out of the iteration count)',
            expect_reach=['returned']),
    Harness('level_loop_confidence', h_levels, setup=LL.setup, cases=QUICK,
            thorough_cases=THOROUGH, funcs=FUNCS, stubs=STUBS,
            assumptions=ASSUME, classify=classify,
            bounds='every child->parent map for trees with <=3 (thorough '
                   '4) levels and the listed node counts per level (<=4 '
                   'leaves), single-child chains, single-node levels and '
                   'childless inner nodes included; 1-2 cells; iteration '
                   'count symbolic in [1,1e6]; 0..2 runners-up requested '
                   '(more than siblings exist included)',
            outside='ties between floating-point vote counts; GPU path',
            expect_reach=['mapped'], selftest=10, split=48),
    Harness('backfill_inferred_levels', h_backfill, setup=LL.setup,
            cases=[{'sizes': s} for s in ([2, 3], [1, 2, 3], [2, 2, 2])]
            + [{'sizes': [2, 2, 2], 'alias': True},
               # two cells that may share the finer assignment
               {'sizes': [1, 2], 'cells': 2}],
            thorough_cases=[{'sizes': [2, 3], 'cells': 2}]
            + [{'sizes': s} for s in
                            ([2, 3], [2, 2, 3], [1, 2, 3], [2, 3, 3],
                             [2, 3, 4], [2, 2, 2, 3])]
            + [{'sizes': [2, 2, 3], 'alias': True}],
            funcs=FUNCS + ['TaxonomyTree.flatten', 'TaxonomyTree.drop_level',
                           'TaxonomyTree.backfill_assignments'],
            stubs=STUBS, assumptions=ASSUME, classify=classify,
            bounds='trees as above; flatten or drop of each non-leaf level',
            outside='', expect_reach=['backfilled'], selftest=10, split=48),
]
