"""C11 — reference markers are sound and complete for the stated criteria.
Real functions: stats_utils.correct_ttest / approx_correct_ttest /
_calculate_tt_nu, scores.penetrance_tests / approx_penetrance_test /
exact_penetrance_test / penetrance_parameter_distance /
score_differential_genes, score_utils.q_score_from_pij / pij_from_stats,
p_value_markers._get_validity_mask.
The numerical value of the Student-t / normal CDF is outside: the Welch
test is replaced by arbitrary p-values where a harness needs them."""
import numpy as np

from symx import core
from symx.core import And, Or, Not, Implies, Sum
from harness.common import (Harness, patch, install_np, shimmed, arr, reals,
                            ints, set_mode)

import cell_type_mapper.utils.stats_utils as ST
import cell_type_mapper.diff_exp.scores as SC
import cell_type_mapper.diff_exp.score_utils as SU
import cell_type_mapper.diff_exp.p_value_markers as PM


def _e(x):
    return x


def ite(ctx, c, a, b):
    if core.is_sym(c) or core.is_sym(a) or core.is_sym(b):
        import z3
        x, y = core._coerce(a, b)
        return core._wrap(z3.If(core.bexpr(c), x, y))
    return a if c else b


def smax(ctx, xs):
    r = xs[0]
    for x in xs[1:]:
        r = ite(ctx, x > r, x, r)
    return r


# ------------------------------------------------------------------ Holm
def setup_holm(case, mode):
    set_mode(mode)
    if shimmed(mode):
        install_np(ST)


def h_holm(ctx, case):
    n = case['n']
    p = reals(ctx, 'p', n, 0, 1)
    th = ctx.real('p_th', 0, 1, lo_strict=True)
    try:
        exact = ST.correct_ttest(arr(ctx, p.copy()))
        approx = ST.approx_correct_ttest(arr(ctx, p.copy()), p_th=th)
    except Exception as e:
        ctx.exception(e)
        return 'EXC ' + type(e).__name__
    ctx.reach('corrected')
    for i in range(n):
        # textbook Holm step-down, rank-free:
        # adj_i = min(1, max_{j: p_j <= p_i} (m - #{k: p_k < p_j}) * p_j)
        cands = []
        for j in range(n):
            nless = Sum([ite(ctx, p[k] < p[j], 1, 0) for k in range(n)
                         if k != j])
            cands.append(ite(ctx, p[j] <= p[i], (n - nless) * p[j], 0))
        holm = smax(ctx, cands)
        holm = ite(ctx, holm < 1, holm, 1)
        ctx.check(ctx.eq(exact[i], holm),
                  'corrected p == Holm step-down adjusted p')
        if ctx.mode == 'sym':
            ctx.check(core.SBool(core.bexpr(exact[i] < th)
                                 == core.bexpr(approx[i] < th)),
                      'restricted correction decides "below the threshold" '
                      'exactly like the full correction')
        else:
            ctx.check(bool(exact[i] < th) == bool(approx[i] < th),
                      'restricted correction decides "below the threshold" '
                      'exactly like the full correction')
    return 'ok'


# ------------------------------------------------------------ penetrance
def setup_pen(case, mode):
    set_mode(mode)
    if shimmed(mode):
        install_np(SC, SU)


def classify_pen(f, case):
    if 'on or above every minimum' in f['label'] and not case.get('exact'):
        return ('F10:approx-penetrance-floor-mask-skipped-when-enough-'
                'genes-are-within-eps-of-the-strict-corner')
    return None


def h_penetrance(ctx, case):
    n = case['genes']
    exact = case.get('exact', False)
    p1 = reals(ctx, 'pij1', n, 0, 1)
    p2 = reals(ctx, 'pij2', n, 0, 1)
    lf = reals(ctx, 'log2_fold', n, 0, None)
    q1_th = ctx.real('q1_th', 0, 1)
    q1_min = ctx.real('q1_min_th', 0, 1)
    qd_th = ctx.real('qdiff_th', 0, 1)
    qd_min = ctx.real('qdiff_min_th', 0, 1)
    f_th = ctx.real('log2_fold_th', 0, None)
    f_min = ctx.real('log2_fold_min_th', 0, None)
    ctx.assume(And(q1_th > q1_min, qd_th > qd_min, f_th > f_min))
    nv = ctx.int('n_valid', 0, n + 2)
    try:
        mask = SC.penetrance_tests(
            arr(ctx, p1.copy()), arr(ctx, p2.copy()), arr(ctx, lf.copy()),
            q1_th, qd_th, f_th, exact=exact, q1_min_th=q1_min,
            qdiff_min_th=qd_min, log2_fold_min_th=f_min, n_valid=nv)
    except Exception as e:
        ctx.exception(e)
        return 'EXC ' + type(e).__name__
    ctx.reach('tested')
    for i in range(n):
        mx = ite(ctx, p1[i] > p2[i], p1[i], p2[i])
        den = ite(ctx, mx > 0, mx, 1)
        ad = ite(ctx, p1[i] >= p2[i], p1[i] - p2[i], p2[i] - p1[i])
        # qdiff = ad/den, compared without division
        strict = And(mx > q1_th, ad > qd_th * den, lf[i] > f_th)
        floors = And(mx >= q1_min, ad >= qd_min * den, lf[i] >= f_min)
        m = mask[i]
        ctx.check(Implies(strict, m),
                  'a gene passing the strict thresholds is valid')
        if exact:
            ctx.check(Implies(m, strict),
                      'exact penetrance: nothing else is valid')
        else:
            ctx.check(Implies(m, floors),
                      'a valid gene lies on or above every minimum '
                      'penetrance / fold-change floor')
    return 'ok'


# ----------------------------------------------------------------- Welch
def setup_tt(case, mode):
    set_mode(mode)
    if shimmed(mode):
        install_np(ST)


def h_tt_nu(ctx, case):
    """_calculate_tt_nu == Welch statistic and Welch-Satterthwaite nu"""
    m1, m2 = ctx.real('mean1'), ctx.real('mean2')
    v1, v2 = ctx.real('var1', 0, None), ctx.real('var2', 0, None)
    n1, n2 = ctx.int('n1', 2, 50), ctx.int('n2', 2, 50)
    try:
        tt, nu = ST._calculate_tt_nu(arr(ctx, [m1]), arr(ctx, [v1]), n1,
                                     arr(ctx, [m2]), arr(ctx, [v2]), n2)
    except Exception as e:
        ctx.exception(e)
        return 'EXC ' + type(e).__name__
    ctx.reach('computed')
    s = v1 / n1 + v2 / n2
    # t * sqrt(s) == mean1 - mean2   <=>  t^2 * s == (m1-m2)^2, same sign
    t = tt[0]
    ctx.check(Implies(s > 0, And(ctx.eq(t * t * s, (m1 - m2) * (m1 - m2)),
                                 t * (m1 - m2) >= 0)),
              't == (mean1-mean2)/sqrt(var1/n1+var2/n2)')
    d = (v1 * v1) / (n1 * n1 * (n1 - 1)) + (v2 * v2) / (n2 * n2 * (n2 - 1))
    ctx.check(Implies(d > 0, ctx.eq(nu[0] * d, s * s)),
              'nu == Welch-Satterthwaite degrees of freedom')
    ctx.check(Implies(And(v1 == 0, v2 == 0),
                      ctx.eq(t * 1.0e-10, m1 - m2)),
              'zero variance => difference of means over the 1e-10 floor '
              '(a huge statistic, not NaN)')
    return 'ok'


def h_tt_nu_width(ctx, case):
    """_calculate_tt_nu with cell counts as they come out of a statistics
    file (64-bit integers): the integer arithmetic on them stays within
    64 bits for every cluster size up to the bound, and the degrees of
    freedom are the Welch-Satterthwaite value"""
    n1 = ctx.int('n1', case.get('min_cells', 2), case['max_cells'])
    n2 = ctx.int('n2', case.get('min_cells', 2), case['max_cells'])
    N1 = arr(ctx, [n1], dtype=np.int64)
    N2 = arr(ctx, [n2], dtype=np.int64)
    try:
        tt, nu = ST._calculate_tt_nu(arr(ctx, [1.0]), arr(ctx, [2.0]), N1,
                                     arr(ctx, [1.5]), arr(ctx, [2.0]), N2)
    except Exception as e:
        ctx.exception(e)
        return 'EXC ' + type(e).__name__
    ctx.reach('computed')
    if ctx.mode != 'sym':
        # nu = (v1/n1 + v2/n2)^2 / (v1^2/(n1^2 (n1-1)) + v2^2/(n2^2 (n2-1)))
        a, b = float(n1), float(n2)
        want = (2.0 / a + 2.0 / b) ** 2 / (
            4.0 / (a * a * (a - 1)) + 4.0 / (b * b * (b - 1)))
        ctx.check(abs(float(nu[0]) - want) <= 1e-6 * want,
                  'nu == Welch-Satterthwaite degrees of freedom')
    return 'ok'


# ------------------------------------------------------------ mask route
def setup_mask(case, mode):
    set_mode(mode)
    if shimmed(mode):
        install_np(PM)


def classify_mask(f, case):
    if 'IndexError' in str(f.get('exc')) + f['label']:
        nv = f['witness'].get('n_valid')
        if nv is not None and nv > case['genes']:
            return 'F6:_get_validity_mask-n_valid-larger-than-n_genes'
    return None


def h_validity_mask(ctx, case):
    """_get_validity_mask: genes with distance -1 (strictly valid) are
    always kept; a kept gene is one of the listed (p-value passing, not
    floor-violating) genes; never an error"""
    ng = case['genes']
    listed = ctx.subset('listed', ng)
    if not listed:
        raise core.PathAbort('no gene passes the p-value test')
    dist = [ctx.real(f"dist[{g}]", -1, 100) for g in listed]
    for d in dist:
        # float16 weights: -1 (strictly valid) or >= resolution
        ctx.assume(Or(d == -1, d >= 0.001))
    nv = ctx.int('n_valid', 0, ng + 2)
    vgi = None
    if case.get('gene_list'):
        vgi = np.array(ctx.subset('in_gene_list', ng), dtype=int)
        if len(vgi) == 0:
            raise core.PathAbort('empty gene list')
    try:
        mask = PM._get_validity_mask(
            n_valid=nv, n_genes=ng,
            gene_indices=np.array(listed, dtype=int),
            raw_distances=arr(ctx, dist), valid_gene_idx=vgi)
    except Exception as e:
        ctx.note('n_valid', 'symbolic')
        ctx.exception(e)
        return 'EXC ' + type(e).__name__
    ctx.reach('masked')
    for g in range(ng):
        if vgi is not None and g not in vgi:
            ctx.check(Not(mask[g]), 'a gene outside the gene list is never '
                      'recorded')
            continue
        if g in listed:
            d = dist[listed.index(g)]
            ctx.check(Implies(d == -1, mask[g]),
                      'strictly valid genes are always recorded')
        else:
            ctx.check(Not(mask[g]), 'a gene that failed the p-value test '
                      'or a floor is never recorded')
    return 'ok'


# -------------------------------------------------- score_differential
def setup_score(case, mode):
    set_mode(mode)
    if shimmed(mode):
        install_np(SC, SU, ST)


def h_score(ctx, case):
    """score_differential_genes with the Welch p-values replaced by
    arbitrary ones: validity = (p < threshold) AND penetrance; clusters
    with fewer than 2 cells give nothing; direction = sign of the mean
    difference; swapping the pair swaps only the direction"""
    ng = case['genes']
    n1 = ctx.int('n_cells_1', 1, 4)
    n2 = ctx.int('n_cells_2', 1, 4)
    pv = reals(ctx, 'p', ng, 0, 1)
    patch(SC, 'diffexp_p_values_from_stats',
          lambda **k: arr(ctx, pv.copy()))
    st = {}
    for name, n in (('a', n1), ('b', n2)):
        st[name] = {'mean': arr(ctx, reals(ctx, f"mean_{name}", ng, 0, 10)),
                    'var': arr(ctx, reals(ctx, f"var_{name}", ng, 0, 4)),
                    'n_cells': n,
                    'ge1': arr(ctx, ints(ctx, f"ge1_{name}", ng, 0, 4),
                               int)}
        for g in range(ng):
            ctx.assume(st[name]['ge1'][g] <= n)
    kw = dict(p_th=0.01, exact_penetrance=True, n_valid=ng)
    try:
        s1, v1, u1 = SC.score_differential_genes('a', 'b', st, **kw)
        s2, v2, u2 = SC.score_differential_genes('b', 'a', st, **kw)
    except Exception as e:
        ctx.exception(e)
        return 'EXC ' + type(e).__name__
    ctx.reach('scored')
    small = Or(n1 < 2, n2 < 2)
    for g in range(ng):
        ctx.check(Implies(small, Not(v1[g])),
                  'a cluster with fewer than two cells yields no marker')
        ctx.check(Implies(v1[g], pv[g] < 0.01),
                  'a marker has a corrected p-value below the threshold')
        same = core.SBool(core.bexpr(v1[g]) == core.bexpr(v2[g])) \
            if ctx.mode == 'sym' else bool(v1[g]) == bool(v2[g])
        ctx.check(same, 'swapping the pair does not change validity')
        ma, mb = st['a']['mean'][g], st['b']['mean'][g]
        ctx.check(Implies(And(Not(small), mb > ma),
                          And(u1[g] == 1, u2[g] == 0)),
                  'direction == sign of the difference of means; swapping '
                  'the pair swaps it')
        ctx.check(Implies(And(Not(small), ma > mb),
                          And(u1[g] == 0, u2[g] == 1)),
                  'direction == sign of the difference of means (other '
                  'way)')
    return 'ok'


def h_lookup_widths(ctx, case):
    """_lookup_to_sparse / _write_to_tmp_file: the integer types chosen
    for the per-chunk tables hold every gene index and every pointer
    (gene indices around the uint8 / uint16 boundaries, few entries)"""
    import cell_type_mapper.diff_exp.markers as MK
    vals = [0, 1, 254, 255, 256, 257, 65535, 65536, 70000]
    npairs = case['pairs']
    lookup = {}
    for i in range(npairs):
        n = ctx.choice(f"n[{i}]", 3)
        picks = sorted({vals[ctx.choice(f"g[{i},{k}]", len(vals))]
                        for k in range(n)})
        lookup[8 + i] = np.array(picks, dtype=np.int64)
    try:
        indptr, indices = MK._lookup_to_sparse(lookup)
    except Exception as e:
        ctx.exception(e)
        return 'EXC ' + type(e).__name__
    ctx.reach('serialised')
    flat = [int(x) for i in sorted(lookup) for x in lookup[i]]
    ctx.check([int(x) for x in indices] == flat,
              'every gene index survives serialisation (type wide enough)')
    ptr = [0]
    for i in sorted(lookup):
        ptr.append(ptr[-1] + len(lookup[i]))
    ctx.check([int(x) for x in indptr] == ptr, 'pointer array exact')
    return 'ok'


def _rm_setup(case, mode):
    from harness import refmarkers as RM
    RM.setup(case, mode)


def classify_stage(f, case):
    w = f['witness']
    if case.get('route') == 'mask':
        if 'hunk' in f['label'] + str(f.get('exc')):
            return 'F17:p-value-mask-with-no-gene-passing:_merge_masks-chunks=(0,)'
        if 'fewer than two cells' in f['label']:
            return 'F18:mask-route-records-markers-for-one-cell-clusters'
    if all(v == 0 for k, v in w.items() if k.startswith('n_cells[')) and \
            'hunk' in f['label'] + str(f.get('exc')):
        return 'F5:no-marker-at-all:_merge_sparse_by_pair_files-chunks=(0,)'
    if 'hunk' in f['label']:
        return 'F5:no-marker-in-one-direction:chunks=(0,)'
    return None


def h_marker_stage(ctx, case):
    """find_markers_for_all_taxonomy_pairs on real files"""
    from harness import refmarkers as RM
    res = RM.run_stage(ctx, case)
    if res['raised'] is not None:
        ctx.exception(res['raised'])
        return 'EXC ' + type(res['raised']).__name__
    ctx.reach('written')
    RM.check_tables(ctx, res)
    if case.get('thresholds'):
        RM.check_thresholds(ctx, res)
    return 'ok'


HARNESSES = [
    Harness('marker_table_stage', h_marker_stage, setup=_rm_setup,
            cases=[{'vary': ['c0', 'c2', 'c3']},
                   {'vary': ['c3'], 'default_size': 1},
                   {'vary': ['c0', 'c3'], 'sizes': [2, 3], 'nproc': 1},
                   {'vary': [], 'fixed': True, 'thresholds': True},
                   {'vary': [], 'fixed': True, 'hair': True, 'nproc': 1},
                   {'vary': [], 'fixed': True, 'wide_genes': 260,
                    'nproc': 2},
                   {'vary': [], 'fixed': True, 'leaves': ['c2', 'c0']}],
            thorough_cases=[{}, {'vary': ['c0'], 'thresholds': True}],
            funcs=['markers.find_markers_for_all_taxonomy_pairs',
                   'create_sparse_by_pair_marker_file', '_prep_output_file',
                   '_prep_chunk', '_find_markers_worker',
                   '_write_to_tmp_file', '_lookup_to_sparse',
                   '_merge_sparse_by_pair_files',
                   'add_sparse_by_gene_markers_to_file',
                   'scores.score_differential_genes (real, incl. the real '
                   'Welch test)', 'csc_to_csr(_parallel) transposition'],
            stubs=['multiprocessing -> model (workers inline)'],
            classify=classify_stage,
            bounds='real files: 5 leaf clusters (10 pairs => two worker '
                   'chunks), 6 genes, fixed per-cell data; solver-chosen '
                   'cluster sizes (1 or 3 cells; quick: three clusters '
                   'vary; one case with 2 or 3 cells; one case where the fold '
                   'threshold is set 1e-5 above the fold of a strict '
                   'marker of a solver-chosen pair, n_valid = 1), worker count 1-3, exact / approximate '
                   'penetrance, n_valid 1 / 30, gene list or none',
            outside='genes whose statistics lie within a small margin of '
                    'a threshold are not judged (the oracle uses scipy\'s '
                    't CDF)',
            expect_reach=['written'], split=32),
    Harness('p_value_mask_route_stage', h_marker_stage, setup=_rm_setup,
            cases=[{'vary': ['c0', 'c3'], 'route': 'mask'},
                   {'vary': ['c3'], 'default_size': 1, 'route': 'mask'},
                   {'vary': ['c0', 'c3'], 'sizes': [2, 3], 'route': 'mask',
                    'nproc': 1},
                   {'vary': [], 'fixed': True, 'route': 'mask',
                    'thresholds': True},
                   {'vary': [], 'fixed': True, 'route': 'mask',
                    'hair': True, 'nproc': 1},
                   {'vary': [], 'fixed': True, 'route': 'mask',
                    'wide_genes': 260, 'nproc': 2},
                   {'vary': [], 'fixed': True, 'route': 'mask',
                    'leaves': ['c2', 'c0']}],
            thorough_cases=[{'route': 'mask'},
                            {'vary': ['c0'], 'route': 'mask',
                             'thresholds': True}],
            funcs=['p_value_mask.create_p_value_mask_file',
                   '_create_p_value_mask_file', '_p_values_worker',
                   '_merge_masks',
                   'p_value_markers.find_markers_for_all_taxonomy_pairs_'
                   'from_p_mask',
                   'create_sparse_by_pair_marker_file_from_p_mask',
                   '_find_markers_from_p_mask_worker', '_get_validity_mask',
                   'markers.add_sparse_by_gene_markers_to_file'],
            stubs=['multiprocessing -> model (workers inline)'],
            classify=classify_stage,
            bounds='as marker_table_stage, through the p-value-mask route '
                   '(mask file written in chunks of 8 pairs, then markers '
                   'from the mask)',
            expect_reach=['written'], split=32),
    Harness('chunk_table_integer_widths', h_lookup_widths,
            cases=[{'pairs': 1}, {'pairs': 2}],
            funcs=['markers._lookup_to_sparse', 'utils.choose_int_dtype'],
            bounds='1-2 pairs with 0-2 markers each, gene indices from '
                   '{0,1,254,255,256,257,65535,65536,70000}',
            expect_reach=['serialised'], split=16),
    Harness('holm_correction', h_holm, setup=setup_holm,
            cases=[{'n': 1}, {'n': 2}, {'n': 3}],
            thorough_cases=[{'n': 1}, {'n': 2}, {'n': 3}, {'n': 4}],
            funcs=['stats_utils.correct_ttest', 'approx_correct_ttest'],
            bounds='1-3 (4) p-values symbolic in [0,1], threshold symbolic '
                   'in (0,1]',
            outside='non-finite p-values (mapped to 1 by the code)',
            expect_reach=['corrected'], selftest=30, split=32),
    Harness('penetrance_exact', h_penetrance, setup=setup_pen,
            cases=[{'genes': 1, 'exact': True}, {'genes': 2, 'exact': True}],
            thorough_cases=[{'genes': 2, 'exact': True},
                            {'genes': 3, 'exact': True}],
            funcs=['scores.penetrance_tests', 'exact_penetrance_test',
                   'score_utils.q_score_from_pij'],
            bounds='1-2 (3) genes; penetrances, fold change and all six '
                   'thresholds symbolic with each strict threshold above '
                   'its floor',
            expect_reach=['tested'], selftest=20, split=16),
    Harness('penetrance_approx', h_penetrance, setup=setup_pen,
            cases=[{'genes': 1}],
            thorough_cases=[{'genes': 1}],
            funcs=['scores.penetrance_tests', 'approx_penetrance_test',
                   'penetrance_parameter_distance',
                   'score_utils.q_score_from_pij'],
            bounds='1 gene; everything symbolic incl. n_valid in [0, 3] '
                   '(two genes: z3 answers unknown on the non-linear '
                   'distance comparisons - not registered)',
            classify=classify_pen, expect_reach=['tested'], selftest=20,
            split=32, query_timeout_ms=60000),
    Harness('welch_cell_count_width', h_tt_nu_width, setup=setup_tt,
            cases=[{'max_cells': 10000000},
                   # (2**21 cells: n**3 wraps twice and comes out right;
                   # the second range starts above that coincidence)
                   {'min_cells': 2200000, 'max_cells': 10000000}],
            funcs=['stats_utils._calculate_tt_nu'],
            stubs=['numpy -> shim with integer-width obligations (powers '
                   'of 64-bit integers included)'],
            bounds='two clusters of 2 .. 10,000,000 cells (64-bit counts '
                   'as read from a statistics file); means and variances '
                   'fixed',
            expect_reach=['computed']),
    Harness('welch_statistic', h_tt_nu, setup=setup_tt, cases=[{}],
            funcs=['stats_utils._calculate_tt_nu'],
            stubs=['sqrt -> fresh s>=0, s*s==x'],
            bounds='one gene; means and variances symbolic, cluster sizes '
                   'symbolic in [2,50]',
            outside='the t / normal CDF values (scipy) and the boring_t / '
                    'big_nu short-cuts',
            expect_reach=['computed'], selftest=20, query_timeout_ms=60000),
    Harness('mask_route_validity', h_validity_mask, setup=setup_mask,
            cases=[{'genes': 2}, {'genes': 3},
                   {'genes': 3, 'gene_list': True}],
            funcs=['p_value_markers._get_validity_mask'],
            bounds='2-3 genes, any non-empty subset listed in the mask, '
                   'distances symbolic (-1 or >= float16 resolution), '
                   'n_valid symbolic in [0, genes+2]',
            classify=classify_mask, expect_reach=['masked'], selftest=20,
            split=16),
    Harness('score_differential_genes', h_score, setup=setup_score,
            cases=[{'genes': 1}, {'genes': 2}],
            funcs=['scores.score_differential_genes', 'penetrance_from_stats',
                   'penetrance_tests', 'score_utils.pij_from_stats'],
            stubs=['diffexp_p_values_from_stats -> arbitrary corrected '
                   'p-values in [0,1] (CDF numerics outside)'],
            bounds='1-2 genes, cluster sizes 1-4, exact penetrance',
            expect_reach=['scored'], selftest=10, split=16),
]
