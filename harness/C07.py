"""C07 — mapping is invariant to count scale, declared normalisation and
gene order; negative raw input is rejected.  Real functions:
cell_by_gene.utils.convert_to_cpm, CellByGeneMatrix.to_log2CPM_in_place /
downsample_genes(_in_place), marker_cache_v2.create_marker_cache_from_
specified_markers / write_query_markers_to_h5, matching.assemble_query_data,
validation.utils.is_data_ge_zero / get_minmax_x_from_h5ad /
_get_minmax_from_dense / _get_minmax_from_sparse."""
import warnings

import numpy as np

from symx import core
from symx.core import And, Or, Not, Implies, Sum
from harness.common import (Harness, patch, install_np, install_h5, shimmed,
                            arr, reals, set_mode, Env, dense_from_bits,
                            same_value)
from harness.C05 import write_h5ad_x

import cell_type_mapper.cell_by_gene.cell_by_gene as CBG
import cell_type_mapper.cell_by_gene.utils as CBGU
import cell_type_mapper.validation.utils as V
import cell_type_mapper.type_assignment.marker_cache_v2 as MC
import cell_type_mapper.type_assignment.matching as MT
from cell_type_mapper.cell_by_gene.cell_by_gene import CellByGeneMatrix
from cell_type_mapper.taxonomy.taxonomy_tree import TaxonomyTree


def setup_norm(case, mode):
    set_mode(mode)
    if shimmed(mode):
        install_np(CBG, CBGU)


def h_scale(ctx, case):
    """convert_to_cpm(k*x) == convert_to_cpm(x); raw -> normalise equals
    supplying log2(CPM+1) and declaring it normalised"""
    ng = case['genes']
    xdt = case.get('x_dtype')
    if xdt is not None:
        # raw counts stored in a (narrow) integer type: any value of its
        # range, modelled as a real in that range (a witness is replayed
        # with its values truncated to integers); scale 1
        info = np.iinfo(np.dtype(xdt))
        x = reals(ctx, 'x', (1, ng), max(0, int(info.min)), int(info.max))
        if ctx.mode != 'sym':
            x = np.array([[float(int(v)) for v in row] for row in x])
        k = 1
    else:
        x = reals(ctx, 'x', (1, ng), 0, None)
        k = ctx.real('k', 0, None, lo_strict=True)
    dkw = {'dtype': np.dtype(xdt)} if xdt else {}
    genes = [f"g{i}" for i in range(ng)]
    keep = [genes[i] for i in ctx.subset('markers', ng)]
    if not keep:
        raise core.PathAbort('no marker')
    try:
        c1 = CBGU.convert_to_cpm(arr(ctx, x, **dkw))
        c2 = CBGU.convert_to_cpm(arr(ctx, x * k, **dkw))
        m_raw = CellByGeneMatrix(arr(ctx, x, **dkw), list(genes), 'raw')
        m_raw.to_log2CPM_in_place()
        m_raw.downsample_genes_in_place(keep)
        m_scaled = CellByGeneMatrix(arr(ctx, x * k, **dkw), list(genes),
                                    'raw')
        m_scaled.to_log2CPM_in_place()
        m_scaled.downsample_genes_in_place(keep)
    except Exception as e:
        ctx.exception(e)
        return 'EXC ' + type(e).__name__
    ctx.reach('normalised')
    tot = Sum(list(x[0]))
    for j in range(ng):
        ctx.check(ctx.eq(c1[0, j], c2[0, j]),
                  'CPM is invariant under a positive per-cell scale')
        ctx.check(Implies(tot > 0, ctx.eq(c1[0, j] * tot,
                                          1000000 * x[0, j])),
                  'CPM == 1e6 * x / row sum')
    for jj, g in enumerate(keep):
        ctx.check(ctx.eq(m_raw.data[0, jj], m_scaled.data[0, jj]),
                  'log2(CPM+1) of the marker columns is invariant under '
                  'scale')
    # declared-normalised route: the harness computes log2(1+cpm) itself
    if ctx.mode == 'sym':
        y = [ctx.ufn('log2', core._toreal(core.term(1.0 + c1[0, j])))
             for j in range(ng)]
    else:
        y = [float(np.log2(1.0 + c1[0, j])) for j in range(ng)]
    m_norm = CellByGeneMatrix(arr(ctx, [y]), list(genes), 'log2CPM')
    m_norm.downsample_genes_in_place(keep)
    ctx.check(m_norm.gene_identifiers == m_raw.gene_identifiers,
              'same marker columns on both routes')
    for jj in range(len(keep)):
        ctx.check(ctx.eq(m_norm.data[0, jj], m_raw.data[0, jj]),
                  'raw + normalise == supplying log2(CPM+1) as normalised')
    return 'ok'


def setup_order(case, mode):
    set_mode(mode)
    warnings.simplefilter('ignore')
    if shimmed(mode):
        install_h5(MC, MT)
        install_np(CBG)


REF = ['gA', 'gC', 'gB']


def h_gene_order(ctx, case):
    """permuting the query columns with their names, or adding genes that
    are not markers / not in the reference, leaves the matrices handed to
    the voting kernel unchanged"""
    data = {'hierarchy': ['L0'], 'L0': {'n1': ['c1'], 'n0': ['c0']}}
    tree = TaxonomyTree(data=data)
    markers = [REF[i] for i in ctx.subset('markers', 3)]
    if not markers:
        raise core.PathAbort('no marker')
    base_q = list(REF)
    vals = {g: ctx.real(f"q[{g}]") for g in REF}
    extra = {'xOnly1': ctx.real('q[xOnly1]'), 'xOnly2': ctx.real('q[x2]')}
    nonmarker_drop = [g for g in REF if g not in markers
                      and ctx.flag(f"drop[{g}]")]
    r = reals(ctx, 'r', (2, 3))
    rm = CellByGeneMatrix(arr(ctx, r), list(REF), 'log2CPM',
                          cell_identifiers=['n0', 'n1'])
    env = Env(ctx)

    def assemble(qnames, tag):
        cache = env.path(f'cache_{tag}.h5')
        MC.create_marker_cache_from_specified_markers(
            marker_lookup={'None': list(markers)},
            reference_gene_names=list(REF), query_gene_names=list(qnames),
            output_cache_path=cache, taxonomy_tree=tree, min_markers=1)
        allv = dict(vals)
        allv.update(extra)
        qm = CellByGeneMatrix(arr(ctx, [[allv[g] for g in qnames]]),
                              list(qnames), 'log2CPM')
        return MT.assemble_query_data(qm, rm, tree, cache, None)
    q2 = [g for g in base_q if g not in nonmarker_drop]
    n_extra = ctx.choice('n_extra', 3)
    q2 = q2 + list(extra)[:n_extra]
    q2 = [q2[i] for i in ctx.perm('order', len(q2))] if len(q2) <= 4 \
        else list(reversed(q2))
    try:
        a = assemble(base_q, 'a')
        b = assemble(q2, 'b')
    except Exception as e:
        ctx.exception(e)
        return 'EXC ' + type(e).__name__
    ctx.reach('assembled')
    ctx.check(a['query_data'].gene_identifiers
              == b['query_data'].gene_identifiers
              and a['reference_data'].gene_identifiers
              == b['reference_data'].gene_identifiers,
              'same marker columns in the same order')
    A, B = a['query_data'].data, b['query_data'].data
    ok = A.shape == B.shape
    ctx.check(ok, 'same shape')
    if ok:
        for j in range(A.shape[1]):
            ctx.check(same_value(ctx, A[0, j], B[0, j]),
                      'query matrix handed to the kernel is unchanged')
        RA, RB = a['reference_data'].data, b['reference_data'].data
        for i in range(RA.shape[0]):
            for j in range(RA.shape[1]):
                ctx.check(same_value(ctx, RA[i, j], RB[i, j]),
                          'reference matrix handed to the kernel is '
                          'unchanged')
    return 'ok'


def setup_neg(case, mode):
    set_mode(mode)
    if shimmed(mode):
        install_np(V)
        install_h5(V)


def classify_neg(f, case):
    w = f['witness']
    nnz = sum(1 for k, v in w.items() if '.nz[' in k and v is True)
    if case['enc'] != 'dense' and nnz == 0:
        return 'F3:sparse-raw-matrix-without-stored-entry:min-of-nothing'
    return None


def h_negative(ctx, case):
    """is_data_ge_zero: False exactly when some value is negative; never
    an error on a well-formed matrix"""
    nr, nc = case['shape']
    enc = case['enc']
    env = Env(ctx)
    dense = dense_from_bits(ctx, 'x', nr, nc, -4, 4)
    path = env.path('q.h5ad')
    chunks = case.get('chunks')
    with_chunks = chunks is not None
    write_h5ad_x(env, path, dense, enc, dense_chunks=tuple(chunks)
                 if (with_chunks and enc == 'dense') else None)
    if with_chunks and enc != 'dense':
        # re-write the data array chunked
        with env.File(path, 'a') as f:
            d = f['X/data'][()]
            if len(d) >= chunks[0]:
                del f['X/data']
                f['X'].create_dataset('data', data=d, chunks=(chunks[0],),
                                      dtype=np.float64)
    vals = [v for row in dense for v in row if v is not None]
    if enc == 'dense':
        vals = [(0.0 if v is None else v) for row in dense for v in row]
    try:
        ok, mn = V.is_data_ge_zero(path)
    except Exception as e:
        ctx.exception(e)
        return 'EXC ' + type(e).__name__
    ctx.reach('decided')
    anyneg = Or(*[v < 0 for v in vals]) if vals else False
    ctx.check(core.SBool(core.bexpr(anyneg) == core.bexpr(Not(ok)))
              if ctx.mode == 'sym' else (bool(anyneg) == (not ok)),
              'rejected exactly when a stored value is negative')
    return 'neg' if not ok else 'ok'


HARNESSES = [
    Harness('scale_and_declared_normalisation', h_scale, setup=setup_norm,
            cases=[{'genes': 2}, {'genes': 3},
                   {'genes': 2, 'x_dtype': 'int32'},
                   {'genes': 2, 'x_dtype': 'uint16'}],
            thorough_cases=[{'genes': 2}, {'genes': 3}, {'genes': 4},
                            {'genes': 5}, {'genes': 3, 'x_dtype': 'uint32'},
                            {'genes': 3, 'x_dtype': 'int16'}],
            funcs=['cell_by_gene.utils.convert_to_cpm',
                   'CellByGeneMatrix.to_log2CPM_in_place',
                   'downsample_genes_in_place'],
            stubs=['log2 -> uninterpreted function (congruence only)'],
            bounds='one cell x 2-3 (thorough 5) genes, counts symbolic '
                   'reals >= 0 (zero rows included), scale k > 0 '
                   'symbolic, every non-empty marker subset',
            outside='floating-point rounding (the statement restricts the '
                    'value relations to bootstrap factor 1 / rounding)',
            expect_reach=['normalised'], selftest=20,
            query_timeout_ms=60000),
    Harness('gene_order_and_extra_genes', h_gene_order, setup=setup_order,
            cases=[{}],
            funcs=['marker_cache_v2.create_marker_cache_from_specified_'
                   'markers', 'write_query_markers_to_h5',
                   'matching.assemble_query_data',
                   'CellByGeneMatrix.downsample_genes'],
            stubs=['h5py -> model'],
            bounds='3 reference genes, every non-empty marker subset; '
                   'query = reference genes in reference order vs any '
                   'order with non-marker genes dropped and 0-2 '
                   'query-only genes added; values symbolic',
            expect_reach=['assembled'], selftest=10, split=32),
    Harness('negative_raw_rejected', h_negative, setup=setup_neg,
            cases=[{'shape': [2, 2], 'enc': e} for e in
                   ('dense', 'csr', 'csc')]
            + [{'shape': [2, 2], 'enc': 'dense', 'chunks': [1, 1]},
               {'shape': [2, 2], 'enc': 'dense', 'chunks': [2, 1]},
               {'shape': [2, 2], 'enc': 'dense', 'chunks': [1, 2]},
               {'shape': [2, 2], 'enc': 'csr', 'chunks': [1]}],
            thorough_cases=[{'shape': [2, 2], 'enc': e} for e in
                            ('dense', 'csr', 'csc')]
            + [{'shape': [2, 3], 'enc': 'dense', 'chunks': c}
               for c in ([1, 1], [1, 2], [2, 1])]
            + [{'shape': [2, 3], 'enc': 'csr', 'chunks': [c]}
               for c in (1, 2)]
            + [{'shape': [3, 2], 'enc': 'csc', 'chunks': [2]}],
            funcs=['validation.utils.is_data_ge_zero',
                   'get_minmax_x_from_h5ad', '_get_minmax_from_dense',
                   '_get_minmax_from_sparse'],
            stubs=['h5py -> model'], classify=classify_neg,
            bounds='every pattern of 2x2 (thorough 2x3, 3x2), values '
                   'symbolic in [-4,4], dense/CSR/CSC, contiguous and '
                   'chunked storage',
            outside='integer dtypes (short-cut on unsigned types); the '
                    'anndata fallback for unknown encodings',
            expect_reach=['decided'], selftest=10, split=32),
]
