"""C15 — JSON, CSV and HDF5 outputs tell the same story and round-trip.
Real functions (real files, real h5py / pandas / anndata):
cli.from_specified_markers.run_mapping / _run_mapping,
output_utils.blob_to_csv / blob_to_df / blob_to_hdf5 /
_blob_to_hdf5_results / hdf5_to_blob, TaxonomyTree.to_str / from_str /
backfill_assignments, utils.clean_for_json."""
from symx import core
from harness.common import Harness
from harness import stage as ST
from harness import stagechecks as SC


def h_outputs(ctx, case):
    inp = SC.inputs(case)
    work = ST.new_work()
    red = ctx.choice('reduction', 5)    # none, flatten, drop class/subclass, drop unknown
    kw = {}
    if red == 1:
        kw['flatten'] = True
    elif red == 2:
        kw['drop_level'] = 'class'
    elif red == 3:
        kw['drop_level'] = 'subclass'
        if case.get('shared_label'):
            raise core.PathAbort('covered by the other inputs')
    elif red == 4:
        kw['drop_level'] = 'sub'        # not a level (prefix of one)
    iters = [1, 7][ctx.choice('iterations', 2)]
    nru = ctx.choice('n_runners_up', 3)
    enc = ['dense', 'csr', 'csc'][ctx.choice('encoding', 3)] \
        if case.get('encodings') else 'dense'
    # storage type of the query matrix
    qdt = [None, 'float32'][ctx.choice('query_stored_as_float32', 2)]
    cfg = ST.make_config(inp, work, bootstrap_iteration=iters,
                         n_runners_up=nru, enc=enc, query_dtype=qdt,
                         n_processors=1 + ctx.choice('n_processors-1', 2),
                         **kw)
    res = ST.run(cfg)
    if res['raised'] is not None:
        ctx.exception(res['raised'])
        ST.drop_work(work)
        return 'EXC ' + type(res['raised']).__name__
    ctx.reach('mapped')
    SC.check_outputs_agree(ctx, cfg, res, inp.tree)
    ST.drop_work(work)
    return 'ok'


HARNESSES = [
    Harness('outputs_agree', h_outputs, setup=SC.setup,
            cases=[{'names': True}, {'names': False},
                   {'names': True, 'hmap': True},
                   {'names': True, 'hmap': 'tricky'},
                   {'names': True, 'shared_label': True},
                   {'names': True, 'childless': True}],
            thorough_cases=[{'names': True, 'encodings': True},
                            {'names': False, 'encodings': True}],
            funcs=['from_specified_markers.run_mapping', '_run_mapping',
                   'output_utils.blob_to_csv', 'blob_to_df', 'blob_to_hdf5',
                   '_blob_to_hdf5_results', 'hdf5_to_blob',
                   'TaxonomyTree.to_str/from_str/backfill_assignments',
                   'utils.clean_for_json'],
            stubs=['multiprocessing -> model (workers run inline)'],
            bounds='one fixed 3-level taxonomy (4 leaves, single-child '
                   'parents, node and display names needing CSV quoting, '
                   'name tables / readable level names present or absent, one '
                   'label shared by two levels) and 5 query cells; '
                   'solver-enumerated configurations: no reduction / '
                   'flatten / drop of each non-leaf level / drop of an '
                   'unknown level, 1 or 7 bootstrap iterations, 0-2 '
                   'runners-up, 1-2 workers (thorough: dense/CSR/CSC)',
            outside='data values are fixed (this is I/O-driven code); the '
                    'argschema CLI layer',
            expect_reach=['mapped'], selftest=0, split=16),
]
