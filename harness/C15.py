"""C15 — JSON, CSV and HDF5 outputs tell the same story and round-trip.
Real functions (real files, real h5py / pandas / anndata):
cli.from_specified_markers.run_mapping / _run_mapping,
output_utils.blob_to_csv / blob_to_df / blob_to_hdf5 /
_blob_to_hdf5_results / hdf5_to_blob, TaxonomyTree.to_str / from_str /
backfill_assignments, utils.clean_for_json."""
from symx import core
from harness.common import Harness
from harness import stage as ST
from harness import stagechecks as SC


def h_outputs(ctx, case):
    inp = SC.inputs(case)
    work = ST.new_work()
    red = ctx.choice('reduction', 5)    # none, flatten, drop class/subclass, drop unknown
    kw = {}
    if red == 1:
        kw['flatten'] = True
    elif red == 2:
        kw['drop_level'] = 'class'
    elif red == 3:
        kw['drop_level'] = 'subclass'
        if case.get('shared_label'):
            raise core.PathAbort('covered by the other inputs')
    elif red == 4:
        kw['drop_level'] = 'sub'        # not a level (prefix of one)
    iters = [1, 7][ctx.choice('iterations', 2)]
    nru = ctx.choice('n_runners_up', 3)
    enc = ['dense', 'csr', 'csc'][ctx.choice('encoding', 3)] \
        if case.get('encodings') else 'dense'
    # storage type of the query matrix
    qdt = [None, 'float32'][ctx.choice('query_stored_as_float32', 2)]
    cfg = ST.make_config(inp, work, bootstrap_iteration=iters,
                         n_runners_up=nru, enc=enc, query_dtype=qdt,
                         n_processors=1 + ctx.choice('n_processors-1', 2),
                         **kw)
    res = ST.run(cfg)
    if res['raised'] is not None:
        ctx.exception(res['raised'])
        ST.drop_work(work)
        return 'EXC ' + type(res['raised']).__name__
    ctx.reach('mapped')
    SC.check_outputs_agree(ctx, cfg, res, inp.tree)
    ST.drop_work(work)
    return 'ok'


def h_hdf5_round_trip(ctx, case):
    """blob_to_hdf5 / hdf5_to_blob on a flat taxonomy wide enough for the
    node indexes to cross the limits of the narrow integer types: the
    solver picks the node of the assignment and of each runner-up from the
    boundary indexes; the file must read back as it was written"""
    import os
    import cell_type_mapper.utils.output_utils as OU
    n = case['nodes']
    edge = [v for v in (0, 127, 128, 255, 256, 32767, 32768, 65535, 65536)
            if v < n - 1] + [n - 1]
    nodes = [f'n{i:05d}' for i in range(n)]
    tree = {'hierarchy': ['cluster'], 'cluster': {k: [] for k in nodes}}
    nru = 2
    results = []
    for ic in range(2):
        p0 = edge[ctx.choice(f'cell{ic}.assignment', len(edge))]
        # the first cell has 0-2 runners-up from the boundary indexes,
        # the second one none
        k = ctx.choice(f'cell{ic}.n_runners_up', nru + 1) if ic == 0 else 0
        ru = []
        for j in range(k):
            r = edge[ctx.choice(f'cell{ic}.runner_up{j}', len(edge))]
            if r == p0 or r in ru:
                raise core.PathAbort('a runner-up is another node')
            ru.append(r)
        results.append({'cell_id': f'c{ic}', 'cluster': {
            'assignment': nodes[p0],
            'bootstrapping_probability': 0.5,
            'aggregate_probability': 0.5,
            'avg_correlation': 0.25,
            'directly_assigned': True,
            'runner_up_assignment': [nodes[r] for r in ru],
            'runner_up_probability': [0.25 / (1 + j) for j in range(k)],
            'runner_up_correlation': [0.125 / (1 + j) for j in range(k)]}})
    blob = {'results': results, 'taxonomy_tree': tree,
            'config': {'type_assignment': {'n_runners_up': nru}},
            'marker_genes': {'None': ['g0', 'g1']}}
    work = ST.new_work()
    path = os.path.join(work['out'], 'blob.h5')
    try:
        OU.blob_to_hdf5(output_blob=blob, dst_path=path)
        back = OU.hdf5_to_blob(src_path=path)
    except Exception as e:
        ctx.exception(e)
        ST.drop_work(work)
        return 'EXC ' + type(e).__name__
    ST.drop_work(work)
    ctx.reach('read back')
    ctx.check(len(back.get('results', [])) == len(results),
              'HDF5 round trip keeps one record per cell')
    for want, got in zip(results, back.get('results', [])):
        ctx.check(got.get('cell_id') == want['cell_id'],
                  'HDF5 round trip keeps the cell ids in order')
        for key, w in want['cluster'].items():
            g = got.get('cluster', {}).get(key)
            if isinstance(w, list):
                ok = g is not None and list(g) == w
            else:
                ok = g == w
            ctx.check(ok, f'HDF5 round trip keeps {key} '
                          '(node indexes at the limits of int8/uint8/int16)')
    for key in ('taxonomy_tree', 'config', 'marker_genes'):
        ctx.check(back.get(key) == blob[key],
                  f'HDF5 round trip keeps {key}')
    return 'ok'


HARNESSES = [
    Harness('outputs_agree', h_outputs, setup=SC.setup,
            cases=[{'names': True}, {'names': False},
                   {'names': True, 'hmap': True},
                   {'names': True, 'hmap': 'tricky'},
                   {'names': True, 'shared_label': True},
                   {'names': True, 'childless': True}],
            thorough_cases=[{'names': True, 'encodings': True},
                            {'names': False, 'encodings': True}],
            funcs=['from_specified_markers.run_mapping', '_run_mapping',
                   'output_utils.blob_to_csv', 'blob_to_df', 'blob_to_hdf5',
                   '_blob_to_hdf5_results', 'hdf5_to_blob',
                   'TaxonomyTree.to_str/from_str/backfill_assignments',
                   'utils.clean_for_json'],
            stubs=['multiprocessing -> model (workers run inline)'],
            bounds='one fixed 3-level taxonomy (4 leaves, single-child '
                   'parents, node and display names needing CSV quoting, '
                   'name tables / readable level names present or absent, one '
                   'label shared by two levels) and 5 query cells; '
                   'solver-enumerated configurations: no reduction / '
                   'flatten / drop of each non-leaf level / drop of an '
                   'unknown level, 1 or 7 bootstrap iterations, 0-2 '
                   'runners-up, 1-2 workers (thorough: dense/CSR/CSC)',
            outside='data values are fixed (this is I/O-driven code); the '
                    'argschema CLI layer',
            expect_reach=['mapped'], selftest=0, split=16),
    Harness('hdf5_round_trip_wide_level', h_hdf5_round_trip, setup=SC.setup,
            cases=[{'nodes': 300}],
            thorough_cases=[{'nodes': 70000}],
            funcs=['output_utils.blob_to_hdf5', '_blob_to_hdf5_results',
                   'hdf5_to_blob'],
            bounds='flat taxonomy of 300 (thorough: 70000) nodes, 2 cells, '
                   '0-2 runners-up for the first cell; the solver enumerates the node of '
                   'every assignment and runner-up over the boundary indexes '
                   '0, 127, 128, 255, 256, (32767, 32768, 65535, 65536,) '
                   'n-1; probabilities / correlations are fixed dyadic '
                   'values',
            outside='indexes between the boundaries; more than one level',
            expect_reach=['read back'], selftest=0, split=16),
]
